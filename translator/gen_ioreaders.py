"""Translator for C14 (second pass): facts about *every* reader class of `navis/io/*.py`, the file selection of batch
reads, the header assembly of `_write_nrrd`, the `info` file calls of `PrecomputedWriter.write_any` and the key filters
of `write_json` / `read_json`, re-extracted from the CURRENT source with `ast` (nothing is imported from navis) and emitted
as Lean definitions (`Gen/IoReaders.lean`).  `Props/C14.lean` proves theorems over these definitions:

* every class deriving (transitively) from `BaseReader`: an own `format_output` must drop `None`, an own `read_buffer` /
  `read_dataframe` must carry `@handle_errors`, and none may override the batch loops / `parse_filename` — a NEW reader
  class, a new override or a dropped decorator changes the table and the theorem stops checking;
* `_write_nrrd` as a list of dictionary operations (`init` from the neuron's old header, `set`, `update`) that a Lean
  interpreter executes: for every old header the geometry read back is the neuron's current one;
* every `write_info_file(...)` call of `PrecomputedWriter.write_any` (zip branch / folder branch) passes `add_props`.

Semantic facts only (call structure, literals, decorators); renamed locals, comments, log lines do not matter.
Anything not found in the expected shape raises: a broken tie is reported, never guessed."""
import ast
from pathlib import Path

PROPS = ['C14']

LOOP_METHODS = ['read_any', 'read_any_multi', 'read_any_single', 'read_directory', 'read_zip', 'read_from_zip', 'read_tar',
                'read_ftp', 'read_from_ftp', 'read_file_path', 'read_bytes', 'read_string', 'read_url', 'parse_filename',
                'files_in_dir', 'is_valid_file', '_make_attributes']


def _s(x):
    return '"' + str(x).replace('\\', '\\\\').replace('"', '\\"') + '"'


def _lst(xs, f=_s):
    return '[' + ', '.join(f(x) for x in xs) + ']'


def _b(v):
    return 'true' if v else 'false'


def _opt_b(v):
    return 'none' if v is None else f'some {_b(v)}'


def _base_name(b):
    """`base.BaseReader` -> 'BaseReader'"""
    if isinstance(b, ast.Attribute):
        return b.attr
    if isinstance(b, ast.Name):
        return b.id
    return ast.unparse(b)


def _decorated(fn, name='handle_errors'):
    return any(_base_name(d.func if isinstance(d, ast.Call) else d) == name for d in fn.decorator_list)


def _filters_none(fo):
    """every list comprehension of a `format_output` carries a filter, and there is at least one"""
    comps = [n for n in ast.walk(fo) if isinstance(n, ast.ListComp)]
    return bool(comps) and all(c.generators and c.generators[0].ifs for c in comps)


def reader_classes(io_dir: Path):
    """[(class, module, base, own format_output filters?, read_buffer decorated?, read_dataframe decorated?, overridden loop methods)]
    for every class that derives transitively from BaseReader, in (module, line) order."""
    classes = {}
    for p in sorted(io_dir.glob('*.py')):
        tree = ast.parse(p.read_text())
        for n in tree.body:
            if isinstance(n, ast.ClassDef):
                classes[n.name] = (p.stem, n, [_base_name(b) for b in n.bases])
    if 'BaseReader' not in classes:
        raise ValueError('class BaseReader not found in navis/io')

    def derives(name, seen=()):
        if name == 'BaseReader':
            return True
        if name not in classes or name in seen:
            return False
        return any(derives(b, seen + (name,)) for b in classes[name][2])
    out = []
    for name, (mod, node, bases) in classes.items():
        if name == 'BaseReader' or not derives(name):
            continue
        methods = {m.name: m for m in node.body if isinstance(m, ast.FunctionDef)}
        fo = methods.get('format_output')
        rb, rdf = methods.get('read_buffer'), methods.get('read_dataframe')
        out.append((name, mod, bases[0] if bases else '', None if fo is None else _filters_none(fo),
                    None if rb is None else _decorated(rb), None if rdf is None else _decorated(rdf),
                    [m for m in LOOP_METHODS if m in methods]))
    # BaseReader itself: the two abstract entry points are decorated too
    bnode = classes['BaseReader'][1]
    bm = {m.name: m for m in bnode.body if isinstance(m, ast.FunctionDef)}
    base_ok = _decorated(bm['read_buffer']) and _decorated(bm['read_dataframe'])
    return sorted(out, key=lambda t: (t[1], t[0])), base_ok


# ------------------------------------------------------------------------------------------------
def _func(tree, name, cls=None):
    body = tree.body
    if cls:
        body = next(n for n in body if isinstance(n, ast.ClassDef) and n.name == cls).body
    for n in body:
        if isinstance(n, ast.FunctionDef) and n.name == name:
            return n
    raise ValueError(f'function {name} not found')


def _is_old_header(e):
    """`getattr(x, "nrrd_header", {})`, possibly wrapped in dict(...) / copy / `or {}`"""
    for n in ast.walk(e):
        if isinstance(n, ast.Call) and isinstance(n.func, ast.Name) and n.func.id == 'getattr' and len(n.args) >= 2 \
                and isinstance(n.args[1], ast.Constant) and n.args[1].value == 'nrrd_header':
            return True
        if isinstance(n, ast.Attribute) and n.attr == 'nrrd_header':
            return True
    return False


def _src_kind(e):
    s = ast.unparse(e).replace(' ', '')
    if s == '3':
        return 'three'
    if 'units_xyz.magnitude' in s and 'diag' in s:
        return 'diagUnits'
    if 'units_xyz.units' in s and '*3' in s:
        return 'unitNames'
    if s == 'x.k':
        return 'k'
    return 'other'


def nrrd_write_ops(nr):
    """`_write_nrrd` as dictionary operations on the local `header`, in source order.
    ('init',) header := the neuron's old header (same object or a copy) ; ('empty',) header := {} ;
    ('set', key, src, dotprops_only) ; ('updateOld',) ; ('updateAttrs',)"""
    f = _func(nr, '_write_nrrd')
    ops = []

    def visit(stmts, dp_only):
        for st in stmts:
            if isinstance(st, ast.If):
                src = ast.unparse(st.test)
                if 'VoxelNeuron' in src and 'isinstance' in src and 'not' not in src:
                    visit(st.body, 'vox')
                    visit(st.orelse, 'dp')
                elif 'Dotprops' in src and 'isinstance' in src and 'not' not in src and 'VoxelNeuron' not in src:
                    visit(st.body, 'dp')
                    visit(st.orelse, 'vox')
                elif isinstance(st.body[0], ast.Raise):
                    continue
                else:
                    visit(st.body, dp_only)
                    visit(st.orelse, dp_only)
                continue
            if isinstance(st, ast.Assign) and len(st.targets) == 1:
                t = st.targets[0]
                if isinstance(t, ast.Name) and t.id == 'header':
                    if isinstance(st.value, ast.Dict):
                        ops.append(('empty',))
                        for k, v in zip(st.value.keys, st.value.values):
                            ops.append(('set', k.value, _src_kind(v), False))
                    elif _is_old_header(st.value):
                        ops.append(('init',))
                    else:
                        raise ValueError('_write_nrrd: unrecognised header initialisation: ' + ast.unparse(st.value)[:80])
                elif isinstance(t, ast.Subscript) and isinstance(t.value, ast.Name) and t.value.id == 'header' \
                        and isinstance(t.slice, ast.Constant):
                    if dp_only == 'vox':
                        continue        # a key only voxel files carry: not part of the modelled geometry
                    ops.append(('set', t.slice.value, _src_kind(st.value), dp_only == 'dp'))
            if isinstance(st, ast.Expr) and isinstance(st.value, ast.Call) and isinstance(st.value.func, ast.Attribute) \
                    and st.value.func.attr == 'update' and isinstance(st.value.func.value, ast.Name) and st.value.func.value.id == 'header':
                arg = st.value.args[0] if st.value.args else None
                if arg is not None and _is_old_header(arg):
                    ops.append(('updateOld',))
                elif arg is not None and 'attrs' in ast.unparse(arg):
                    ops.append(('updateAttrs',))
                else:
                    raise ValueError('_write_nrrd: unrecognised header.update(...): ' + ast.unparse(st)[:80])
    visit(f.body, None)
    if not ops or ops[0][0] not in ('init', 'empty'):
        raise ValueError('_write_nrrd: header construction not recognised')
    # the header handed to nrrd.write must be the local `header`
    wr = [n for n in ast.walk(f) if isinstance(n, ast.Call) and ast.unparse(n.func) == 'nrrd.write']
    if len(wr) != 1 or not any(kw.arg == 'header' and isinstance(kw.value, ast.Name) and kw.value.id == 'header' for kw in wr[0].keywords):
        raise ValueError('_write_nrrd: nrrd.write(..., header=header) not found')
    return ops


def info_calls(pre):
    """For each `write_info_file(...)` call in PrecomputedWriter.write_any: (branch, passes add_props?) where branch is
    'zip' when the call sits under the `endswith(".zip")` test and 'dir' otherwise; plus the literal of add_props."""
    w = _func(pre, 'write_any', 'PrecomputedWriter')
    calls = []

    def visit(stmts, branch):
        for st in stmts:
            if isinstance(st, ast.If):
                src = ast.unparse(st.test)
                if '.zip' in src and 'endswith' in src:
                    visit(st.body, 'zip')
                    visit(st.orelse, 'dir')
                else:
                    visit(st.body, branch)
                    visit(st.orelse, branch)
            elif isinstance(st, (ast.With, ast.For, ast.While, ast.Try)):
                visit(st.body, branch)
                for h in getattr(st, 'handlers', []):
                    visit(h.body, branch)
                visit(getattr(st, 'orelse', []), branch)
                visit(getattr(st, 'finalbody', []), branch)
            else:
                for n in ast.walk(st):
                    if isinstance(n, ast.Call) and _base_name(n.func) == 'write_info_file':
                        passes = any(kw.arg == 'add_props' and isinstance(kw.value, ast.Name) and kw.value.id == 'add_props'
                                     for kw in n.keywords) or (len(n.args) >= 3 and isinstance(n.args[2], ast.Name) and n.args[2].id == 'add_props')
                        calls.append((branch or 'dir', passes))
    visit(w.body, None)
    if not calls:
        raise ValueError('PrecomputedWriter.write_any: no write_info_file call found')
    # add_props["vertex_attributes"] is set under `if kwargs.get("radius", ...)`
    guarded = False
    for n in ast.walk(w):
        if isinstance(n, ast.If) and 'radius' in ast.unparse(n.test):
            for m in ast.walk(n):
                if isinstance(m, ast.Assign) and isinstance(m.targets[0], ast.Subscript) and \
                        isinstance(m.targets[0].slice, ast.Constant) and m.targets[0].slice.value == 'vertex_attributes':
                    guarded = True
    # write_info_file merges add_props into the info dict
    wi = _func(pre, 'write_info_file')
    merges = any(isinstance(n, ast.Call) and isinstance(n.func, ast.Attribute) and n.func.attr == 'update'
                 and n.args and isinstance(n.args[0], ast.Name) and n.args[0].id == 'add_props' for n in ast.walk(wi))
    return sorted(set(calls)), guarded, merges


def valid_file_literals(pre, base):
    """literals of PrecomputedReader.is_valid_file (rejected: names containing X, equal to Y, ending with Z) and of
    BaseReader.is_valid_file (hidden prefix)"""
    f = _func(pre, 'is_valid_file', 'PrecomputedReader')
    contains, equals, ends = [], [], []
    for n in ast.walk(f):
        if isinstance(n, ast.If) and any(isinstance(r, ast.Return) and isinstance(r.value, ast.Constant) and r.value.value is False
                                         for r in n.body):
            t = n.test
            if isinstance(t, ast.Compare) and isinstance(t.ops[0], ast.In) and isinstance(t.left, ast.Constant):
                contains.append(t.left.value)
            elif isinstance(t, ast.Compare) and isinstance(t.ops[0], ast.Eq) and isinstance(t.comparators[0], ast.Constant):
                equals.append(t.comparators[0].value)
            elif isinstance(t, ast.Call) and isinstance(t.func, ast.Attribute) and t.func.attr == 'endswith':
                ends.append(t.args[0].value)
    g = _func(base, 'is_valid_file', 'BaseReader')
    hidden = [n.args[0].value for n in ast.walk(g) if isinstance(n, ast.Call) and isinstance(n.func, ast.Attribute)
              and n.func.attr == 'startswith' and n.args and isinstance(n.args[0], ast.Constant)]
    return contains, equals, ends, hidden


def json_keys(js):
    w = _func(js, 'write_json')
    keep = None
    for n in ast.walk(w):
        if isinstance(n, ast.Compare) and isinstance(n.ops[0], ast.NotIn) and isinstance(n.comparators[0], (ast.List, ast.Tuple)):
            keep = [e.value for e in n.comparators[0].elts]
    prefix = [n.args[0].value for n in ast.walk(w) if isinstance(n, ast.Call) and isinstance(n.func, ast.Attribute)
              and n.func.attr == 'startswith' and isinstance(n.args[0], ast.Constant)]
    idkey = None
    for n in ast.walk(w):
        if isinstance(n, ast.Dict) and len(n.keys) == 1 and isinstance(n.keys[0], ast.Constant) and ast.unparse(n.values[0]) == 'n.id':
            idkey = n.keys[0].value
    r = _func(js, 'read_json')
    special = None
    for n in ast.walk(r):
        if isinstance(n, ast.Compare) and isinstance(n.ops[0], ast.In) and isinstance(n.comparators[0], (ast.List, ast.Tuple)) \
                and isinstance(n.left, ast.Name):
            special = [e.value for e in n.comparators[0].elts]
    tables = sorted({n.left.value for n in ast.walk(r) if isinstance(n, ast.Compare) and isinstance(n.ops[0], ast.In)
                     and isinstance(n.left, ast.Constant) and isinstance(n.comparators[0], ast.Name)})
    if keep is None or special is None or idkey is None or len(prefix) != 1:
        raise ValueError('write_json / read_json: key filters not recognised')
    return keep, prefix[0], idkey, special, tables


def h5_parallel_map(h5):
    """the pool method `read_h5` maps the per-neuron jobs with (`imap` keeps the submission order)"""
    f = _func(h5, 'read_h5')
    names = [n.func.attr for n in ast.walk(f) if isinstance(n, ast.Call) and isinstance(n.func, ast.Attribute)
             and isinstance(n.func.value, ast.Name) and n.func.value.id == 'pool']
    if len(names) != 1:
        raise ValueError(f'read_h5: expected one pool.<map> call, got {names}')
    return names[0]


def info_transform_shape(pre):
    """`tr = np.zeros((R, C), ...)`, `tr[:3, :3] = np.diag(u)`, `info["transform"] = tr.T.flatten()…`:
    (R, C), transposed before flattening?, diagonal block assignment present?"""
    f = _func(pre, 'write_info_file')
    shape, transposed, diag = None, None, False
    for n in ast.walk(f):
        if isinstance(n, ast.Assign) and isinstance(n.targets[0], ast.Name) and n.targets[0].id == 'tr' and isinstance(n.value, ast.Call) \
                and n.value.args and isinstance(n.value.args[0], ast.Tuple):
            shape = tuple(e.value for e in n.value.args[0].elts)
        if isinstance(n, ast.Assign) and isinstance(n.targets[0], ast.Subscript) and isinstance(n.targets[0].slice, ast.Constant) \
                and n.targets[0].slice.value == 'transform':
            src = ast.unparse(n.value).replace(' ', '')
            if 'flatten()' not in src and 'ravel()' not in src:
                raise ValueError('write_info_file: transform is not a flattened matrix: ' + src)
            transposed = '.T.' in src or 'transpose' in src
        if isinstance(n, ast.Assign) and isinstance(n.targets[0], ast.Subscript) and ast.unparse(n.targets[0]).replace(' ', '') == 'tr[:3,:3]' \
                and 'diag' in ast.unparse(n.value):
            diag = True
    if shape is None or transposed is None:
        raise ValueError('write_info_file: transform construction not recognised')
    return shape, transposed, diag


def _scan_loop(f, fname):
    """the `for` loop of an archive scan: the one whose body appends to `to_read`"""
    loops = [n for n in ast.walk(f) if isinstance(n, ast.For) and any(
        isinstance(m, ast.Call) and isinstance(m.func, ast.Attribute) and m.func.attr == 'append'
        and isinstance(m.func.value, ast.Name) and m.func.value.id == 'to_read' for m in ast.walk(n))]
    if len(loops) != 1:
        raise ValueError(f'{fname}: expected one scan loop appending to to_read, found {len(loops)}')
    return loops[0]


def selection_facts(base):
    """The `limit` handling of the batch reads:
    * per archive scan (`parallel_read_archive`, `BaseReader.read_tar`): the test of the `if …limit…: break` statement and
      where it sits in the loop body ('first' statement / 'last' / 'middle'), and what the loop appends to `to_read`;
    * `read_directory`: the expression the integer limit is applied with;
    * per container: the membership test a list of file names is filtered with."""
    int_limit, collects, names = [], [], []
    fns = [('read_directory', 'BaseReader'), ('parallel_read_archive', None), ('read_tar', 'BaseReader')]
    for fname, cls in fns:
        f = _func(base, fname, cls)
        if fname != 'read_directory':
            loop = _scan_loop(f, fname)
            brk = [(i, st) for i, st in enumerate(loop.body) if isinstance(st, ast.If) and 'limit' in ast.unparse(st.test)
                   and len(st.body) == 1 and isinstance(st.body[0], ast.Break) and not st.orelse]
            all_brk = [n for n in ast.walk(loop) if isinstance(n, ast.Break)]
            if len(brk) != 1 or len(all_brk) != 1:
                raise ValueError(f'{fname}: expected exactly one `if <limit test>: break` directly in the scan loop')
            i, st = brk[0]
            pos = 'first' if i == 0 else ('last' if i == len(loop.body) - 1 else 'middle')
            int_limit.append((fname, ast.unparse(st.test), pos))
            app = {ast.unparse(m.args[0]) for m in ast.walk(loop) if isinstance(m, ast.Call) and isinstance(m.func, ast.Attribute)
                   and m.func.attr == 'append' and isinstance(m.func.value, ast.Name) and m.func.value.id == 'to_read'}
            if len(app) != 1:
                raise ValueError(f'{fname}: the scan loop appends different things to to_read: {sorted(app)}')
            collects.append((fname, app.pop()))
        # `isinstance(limit, list)` branch: a list comprehension with one condition
        hit = [n for n in ast.walk(f) if isinstance(n, ast.If) and ast.unparse(n.test).replace(' ', '') == 'isinstance(limit,list)']
        if len(hit) != 1 or len(hit[0].body) != 1 or not isinstance(hit[0].body[0], ast.Assign) \
                or not isinstance(hit[0].body[0].value, ast.ListComp):
            raise ValueError(f'{fname}: `isinstance(limit, list)` branch not recognised')
        comp = hit[0].body[0].value
        if len(comp.generators) != 1 or len(comp.generators[0].ifs) != 1 or ast.unparse(comp.elt) != ast.unparse(comp.generators[0].target):
            raise ValueError(f'{fname}: list-of-names filter not recognised: ' + ast.unparse(comp))
        names.append((fname, ast.unparse(comp.generators[0].ifs[0])))
    rd = _func(base, 'read_directory', 'BaseReader')
    hit = [n for n in ast.walk(rd) if isinstance(n, ast.If) and ast.unparse(n.test).replace(' ', '') == 'isinstance(limit,int)']
    if len(hit) != 1 or len(hit[0].body) != 1 or not isinstance(hit[0].body[0], ast.Assign):
        raise ValueError('read_directory: `isinstance(limit, int)` branch not recognised')
    dir_int = ast.unparse(hit[0].body[0].value)
    return int_limit, collects, names, dir_int


def pre_valid_unwraps(pre):
    """PrecomputedReader.is_valid_file: [(class tested with isinstance(file, …), expression `file` is replaced with)]"""
    f = _func(pre, 'is_valid_file', 'PrecomputedReader')
    out = []
    for n in ast.walk(f):
        if isinstance(n, ast.If) and isinstance(n.test, ast.Call) and ast.unparse(n.test.func) == 'isinstance' \
                and ast.unparse(n.test.args[0]) == 'file':
            asg = [st for st in n.body if isinstance(st, ast.Assign) and ast.unparse(st.targets[0]) == 'file']
            if len(asg) != 1:
                raise ValueError('PrecomputedReader.is_valid_file: isinstance branch without `file = …`')
            v = asg[0].value
            if isinstance(v, ast.Call) and ast.unparse(v.func) == 'str' and len(v.args) == 1:
                v = v.args[0]
            out.append((ast.unparse(n.test.args[1]), ast.unparse(v)))
    return out


def h5_attr_facts(h5):
    """Guards of the raw-representation attribute writes of H5WriterV1 and the array branch of parse_add_units:
    [(writer, test guarding `…attrs['units_nm'] = …`)], [(writer, test guarding `…attrs['soma'] = …`)],
    test guarding `grp.attrs['neuron_name'] = …`, expression assigned to `neuron.units` under `isinstance(units, np.ndarray)`."""
    def guard(fn, key):
        hits = []
        for n in ast.walk(fn):
            if isinstance(n, ast.If):
                for st in n.body:
                    if isinstance(st, ast.Assign) and isinstance(st.targets[0], ast.Subscript) \
                            and isinstance(st.targets[0].slice, ast.Constant) and st.targets[0].slice.value == key \
                            and ast.unparse(st.targets[0].value).endswith('.attrs'):
                        hits.append(ast.unparse(n.test))
        unguarded = [st for st in fn.body if isinstance(st, ast.Assign) and isinstance(st.targets[0], ast.Subscript)
                     and isinstance(st.targets[0].slice, ast.Constant) and st.targets[0].slice.value == key]
        if len(hits) != 1 or unguarded:
            raise ValueError(f'{fn.name}: expected exactly one guarded write of attrs[{key!r}], found {hits}')
        return hits[0]
    writers = ['write_treeneuron', 'write_dotprops', 'write_meshneuron']
    units = [(w, guard(_func(h5, w, 'H5WriterV1'), 'units_nm')) for w in writers]
    soma = [(w, guard(_func(h5, w, 'H5WriterV1'), 'soma')) for w in writers]
    name = guard(_func(h5, 'get_neuron_group', 'H5WriterV1'), 'neuron_name')
    pu = _func(h5, 'parse_add_units', 'H5ReaderV1')
    arr = []
    for n in ast.walk(pu):
        if isinstance(n, ast.If) and ast.unparse(n.test).replace(' ', '') == 'isinstance(units,np.ndarray)':
            arr += [ast.unparse(st.value) for st in n.body if isinstance(st, ast.Assign) and ast.unparse(st.targets[0]) == 'neuron.units']
    if len(arr) != 1:
        raise ValueError('H5ReaderV1.parse_add_units: ndarray branch not recognised')
    return units, soma, name, arr[0]


def json_members_checked(js):
    """write_json raises TypeError for a list member that is not a TreeNeuron (a loop over `x` before anything is written)"""
    w = _func(js, 'write_json')
    for n in ast.walk(w):
        if isinstance(n, ast.For) and ast.unparse(n.iter) == 'x':
            for st in n.body:
                if isinstance(st, ast.If) and ast.unparse(st.test).replace(' ', '') == \
                        f'notisinstance({ast.unparse(n.target)},core.TreeNeuron)' and any(
                        isinstance(r, ast.Raise) and 'TypeError' in ast.unparse(r) for r in st.body):
                    return True
    return False


def pool_map_sites(io_dir: Path):
    """EVERY call `<pool>.<method>(...)` in navis/io/*.py where <pool> is bound by `with <…Pool|…Executor>(…) as <pool>` or
    `<pool> = <…Pool|…Executor>(…)`, plus every use of `as_completed`: [(module, enclosing function, method)] in source order.
    `map` / `imap` / `starmap` return results in submission order; `imap_unordered`, `as_completed`, `apply_async`,
    `map_async` + callbacks, `submit` do not (or leave the order to the caller)."""
    sites = []
    for p in sorted(io_dir.glob('*.py')):
        tree = ast.parse(p.read_text())
        funcs = [n for n in ast.walk(tree) if isinstance(n, (ast.FunctionDef, ast.AsyncFunctionDef))]
        for fn in funcs:
            pools = set()
            for n in ast.walk(fn):
                if isinstance(n, ast.With):
                    for it in n.items:
                        c = it.context_expr
                        if isinstance(c, ast.Call) and _base_name(c.func).endswith(('Pool', 'Executor')) and isinstance(it.optional_vars, ast.Name):
                            pools.add(it.optional_vars.id)
                if isinstance(n, ast.Assign) and isinstance(n.value, ast.Call) and _base_name(n.value.func).endswith(('Pool', 'Executor')):
                    for t in n.targets:
                        if isinstance(t, ast.Name):
                            pools.add(t.id)
            # only the innermost function owning the pool reports the site
            inner = [g for g in ast.walk(fn) if isinstance(g, (ast.FunctionDef, ast.AsyncFunctionDef)) and g is not fn]
            inner_nodes = {id(x) for g in inner for x in ast.walk(g)}
            for n in ast.walk(fn):
                if id(n) in inner_nodes:
                    continue
                if isinstance(n, ast.Call) and isinstance(n.func, ast.Attribute) and isinstance(n.func.value, ast.Name) \
                        and n.func.value.id in pools and n.func.attr not in ('close', 'join', 'terminate', 'shutdown'):
                    sites.append((p.stem, fn.name, n.func.attr, n.lineno))
                if isinstance(n, ast.Call) and _base_name(n.func) == 'as_completed':
                    sites.append((p.stem, fn.name, 'as_completed', n.lineno))
    sites.sort(key=lambda t: (t[0], t[3]))
    return [(m, f, a) for m, f, a, _ in sites]


def voxel_cache_facts(repo: Path):
    """navis/core/voxel.py, class VoxelNeuron: CORE_DATA, TEMP_ATTR, and for every method that assigns `<obj>._data` or
    `<obj>._values` (property setters, threshold, strip, arithmetic …): (name, fields, calls `_clear_temp_attr()`?)"""
    tree = ast.parse((Path(repo) / 'navis' / 'core' / 'voxel.py').read_text())
    cls = next((n for n in tree.body if isinstance(n, ast.ClassDef) and n.name == 'VoxelNeuron'), None)
    if cls is None:
        raise ValueError('class VoxelNeuron not found')
    lists = {}
    for st in cls.body:
        if isinstance(st, ast.Assign) and isinstance(st.targets[0], ast.Name) and st.targets[0].id in ('CORE_DATA', 'TEMP_ATTR'):
            lists[st.targets[0].id] = [e.value for e in st.value.elts]
    if set(lists) != {'CORE_DATA', 'TEMP_ATTR'}:
        raise ValueError('VoxelNeuron: CORE_DATA / TEMP_ATTR not found')
    assigns = []
    for fn in cls.body:
        if not isinstance(fn, ast.FunctionDef) or fn.name in ('__init__', '__setstate__'):
            continue
        fields = []
        for n in ast.walk(fn):
            tg = n.targets if isinstance(n, ast.Assign) else ([n.target] if isinstance(n, ast.AugAssign) else [])
            for t in tg:
                base = t.value if isinstance(t, ast.Subscript) else t      # x._data[mask] = 0 writes the field too
                if isinstance(base, ast.Attribute) and base.attr in ('_data', '_values') and base.attr not in fields:
                    fields.append(base.attr)
        if not fields:
            continue
        clears = any(isinstance(n, ast.Call) and isinstance(n.func, ast.Attribute) and n.func.attr == '_clear_temp_attr' for n in ast.walk(fn))
        is_setter = any(isinstance(dc, ast.Attribute) and dc.attr == 'setter' for dc in fn.decorator_list)
        assigns.append((fn.name + ('.setter' if is_setter else ''), sorted(fields), clears))
    return lists['CORE_DATA'], lists['TEMP_ATTR'], assigns


def generate(repo: Path):
    io = Path(repo) / 'navis' / 'io'
    base, pre, nr = (ast.parse((io / f).read_text()) for f in ('base.py', 'precomputed_io.py', 'nrrd_io.py'))
    js = ast.parse((io / 'json_io.py').read_text())
    classes, base_ok = reader_classes(io)
    ops = nrrd_write_ops(nr)
    calls, guarded, merges = info_calls(pre)
    contains, equals, ends, hidden = valid_file_literals(pre, base)
    keep, prefix, idkey, special, tables = json_keys(js)
    h5 = ast.parse((io / 'hdf_io.py').read_text())
    h5map = h5_parallel_map(h5)
    int_limit, collects, names_test, dir_int = selection_facts(base)
    unwraps = pre_valid_unwraps(pre)
    h5units, h5soma, h5name, h5arr = h5_attr_facts(h5)
    js_checked = json_members_checked(js)
    tshape, ttrans, tdiag = info_transform_shape(pre)
    psites = pool_map_sites(io)
    vcore, vtemp, vassign = voxel_cache_facts(repo)

    def cls(c):
        name, mod, b, fo, rb, rdf, ov = c
        return f'⟨{_s(name)}, {_s(mod)}, {_s(b)}, {_opt_b(fo)}, {_opt_b(rb)}, {_opt_b(rdf)}, {_lst(ov)}⟩'

    def op(o):
        if o[0] == 'set':
            return f'.set {_s(o[1])} .{o[2]} {_b(o[3])}'
        return '.' + o[0]
    src = f"""/- GENERATED by translator/gen_ioreaders.py from navis/io/*.py. Do not edit: regenerated on every `./check C14`. -/
import NavisModel.Model.IoMeta
namespace Navis.Gen.IoReaders
open Navis.IoMeta

/-- One entry per class deriving (transitively) from `BaseReader`: own `format_output` drops `None`? own `read_buffer` /
`read_dataframe` decorated with `@handle_errors`? which batch-loop / file-name methods it overrides. -/
def readerClasses : List ReaderClass := [
  {(',' + chr(10) + '  ').join(cls(c) for c in classes)}]
/-- `BaseReader.read_buffer` and `.read_dataframe` carry `@handle_errors` themselves. -/
def baseEntryPointsDecorated : Bool := {_b(base_ok)}

/-- `_write_nrrd`: the assembly of the header dictionary, statement by statement. -/
def nrrdWriteOps : List HOp := [{', '.join(op(o) for o in ops)}]

/-- `PrecomputedWriter.write_any`: does the `write_info_file` call of the branch pass `add_props`? -/
def infoCallPassesAddProps : List (String × Bool) := [{', '.join(f'({_s(b)}, {_b(p)})' for b, p in calls)}]
/-- `add_props["vertex_attributes"]` is set exactly under the `radius` test; `write_info_file` merges `add_props`. -/
def infoAddPropsGuardedByRadius : Bool := {_b(guarded)}
def infoMergesAddProps : Bool := {_b(merges)}
/-- `write_info_file`: shape of the matrix `tr`, whether it is transposed before `flatten()`, and whether the scale goes
on the diagonal of its upper 3×3 block. -/
def infoTransformShape : Nat × Nat := ({tshape[0]}, {tshape[1]})
def infoTransformTransposed : Bool := {_b(ttrans)}
def infoTransformDiagBlock : Bool := {_b(tdiag)}
/-- `read_h5(parallel=…)`: pool method (`imap` keeps submission order). -/
def h5ParallelMap : String := {_s(h5map)}
/-- `navis/core/voxel.py`, VoxelNeuron: hashed fields, cached attributes, and every method assigning `_data` / `_values`. -/
def voxCoreData : List String := {_lst(vcore)}
def voxTempAttr : List String := {_lst(vtemp)}
def voxAssigns : List VoxAssign := [{', '.join(f'⟨{_s(a)}, {_lst(fl)}, {_b(c)}⟩' for a, fl, c in vassign)}]
def voxFacts : VoxFacts := voxFactsOf voxCoreData voxTempAttr voxAssigns
/-- EVERY worker-pool call site of `navis/io/*.py`: (module, function, pool method). -/
def poolMapSites : List (String × String × String) := [{', '.join(f'({_s(m)}, {_s(f)}, {_s(a)})' for m, f, a in psites)}]

/-- `PrecomputedReader.is_valid_file`: a name is rejected when it contains / equals / ends with one of these. -/
def preRejectContains : List String := {_lst(contains)}
def preRejectEquals : List String := {_lst(equals)}
def preRejectEndsWith : List String := {_lst(ends)}
/-- `BaseReader.is_valid_file`: prefix of hidden files. -/
def hiddenPrefix : List String := {_lst(hidden)}

/-- `write_json`: private keys (prefix) are dropped unless listed; the id key; `read_json`: keys parsed as tables. -/
def jsonKeepPrivate : List String := {_lst(keep)}
def jsonPrivatePrefix : String := {_s(prefix)}
def jsonIdKey : String := {_s(idkey)}
def jsonReadSkipsSetattr : List String := {_lst(special)}
def jsonReadTables : List String := {_lst(tables)}
/-- `write_json`: every member of a NeuronList is tested for `TreeNeuron` (TypeError otherwise). -/
def jsonMembersChecked : Bool := {_b(js_checked)}

/-- The integer `limit` of the archive scans: (function, test of the `if …: break`, position of that statement in the loop
body); what the scan appends to `to_read`; `read_directory`'s integer limit; the filter applied for a list of names. -/
def archiveIntLimit : List (String × String × String) := {_lst(int_limit, lambda t: f'({_s(t[0])}, {_s(t[1])}, {_s(t[2])})')}
def archiveCollects : List (String × String) := {_lst(collects, lambda t: f'({_s(t[0])}, {_s(t[1])})')}
def dirIntLimit : String := {_s(dir_int)}
def namesLimitTest : List (String × String) := {_lst(names_test, lambda t: f'({_s(t[0])}, {_s(t[1])})')}
/-- `PrecomputedReader.is_valid_file`: (class of the entry object, expression its name is taken from). -/
def preValidUnwraps : List (String × String) := {_lst(unwraps, lambda t: f'({_s(t[0])}, {_s(t[1])})')}

/-- `H5WriterV1.write_*` (raw): the tests guarding the `units_nm` and `soma` attribute writes; `get_neuron_group`: the test
guarding `neuron_name`; `H5ReaderV1.parse_add_units`: what `neuron.units` is set to for an array-valued `units_nm`. -/
def h5UnitsGuards : List (String × String) := {_lst(h5units, lambda t: f'({_s(t[0])}, {_s(t[1])})')}
def h5SomaGuards : List (String × String) := {_lst(h5soma, lambda t: f'({_s(t[0])}, {_s(t[1])})')}
def h5NameGuard : String := {_s(h5name)}
def h5ReaderArrayUnits : String := {_s(h5arr)}

end Navis.Gen.IoReaders
"""
    meta = {'source': ['navis/io/*.py'], 'reader_classes': [c[0] for c in classes], 'nrrd_write_ops': [list(map(str, o)) for o in ops],
            'info_calls': calls, 'json_keep': keep, 'archive_int_limit': int_limit, 'names_limit_test': names_test,
            'pre_valid_unwraps': unwraps, 'h5_units_guards': h5units, 'h5_soma_guards': h5soma, 'h5_name_guard': h5name,
            'h5_reader_array_units': h5arr, 'json_members_checked': js_checked}
    return 'IoReaders.lean', src, meta
