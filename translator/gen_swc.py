"""Translator for C07: re-extract the declarative parts of SWC writing / reading from the current navis source
(`navis/io/swc_io.py`, read as text, walked with `ast`; nothing is imported from navis).

* `make_swc_table`: the initial label, the label rules in source order (`swc.loc[<selector>, "label"] = <code>`:
  type == branch / end, soma, pre, post; which of them sit under `if export_connectors:`), the sort column, its source, direction and
  kind (stable), the recognised shape of the `_node_depths` loop, the offset of `swc.index.values + <k>`, the default of `new_ids.get(x, <d>)`, the column selection,
  the `fillna(<v>)` of the radius;
* `_write_swc`: the attributes written by `write_meta=True`, the `Meta:` prefix;
* `NODE_COLUMNS`, the default `soma_label` of `read_swc` / `SwcReader.__init__`, the dtype given to the `label` column.

The structure the model hard-wires (rule order, gating, override order) is *checked* here: a source that no
longer has it makes the translator fail, which the check treats as a broken tie."""
import ast
from pathlib import Path

PROPS = ['C07']


def _func(tree, name, cls=None):
    for n in ast.walk(tree):
        if cls and isinstance(n, ast.ClassDef) and n.name == cls:
            for m in n.body:
                if isinstance(m, ast.FunctionDef) and m.name == name:
                    return m
    if cls:
        raise ValueError(f'{cls}.{name} not found')
    for n in tree.body:
        if isinstance(n, ast.FunctionDef) and n.name == name:
            return n
    raise ValueError(f'function {name} not found')


def _const(n):
    if isinstance(n, ast.Constant):
        return n.value
    if isinstance(n, ast.UnaryOp) and isinstance(n.op, ast.USub) and isinstance(n.operand, ast.Constant):
        return -n.operand.value
    raise ValueError(f'not a constant: {ast.dump(n)[:80]}')


def _selector(cond):
    """swc.type == "branch" → 'type:branch';  swc.node_id.isin(soma) → 'isin:soma'."""
    if isinstance(cond, ast.Compare) and len(cond.ops) == 1 and isinstance(cond.ops[0], ast.Eq) \
            and isinstance(cond.left, ast.Attribute) and cond.left.attr == 'type':
        return 'type:' + str(_const(cond.comparators[0]))
    if isinstance(cond, ast.Call) and isinstance(cond.func, ast.Attribute) and cond.func.attr == 'isin' \
            and isinstance(cond.func.value, ast.Attribute) and cond.func.value.attr == 'node_id' and len(cond.args) == 1 \
            and isinstance(cond.args[0], ast.Name):
        return 'isin:' + cond.args[0].id
    raise ValueError(f'label rule selector not recognised: {ast.unparse(cond)}')


def _label_rules(fn):
    """[(selector, code, gated_by_export)] in source order, plus the initial label."""
    init = None
    rules = []

    def visit(stmts, gated):
        nonlocal init
        for st in stmts:
            if isinstance(st, ast.Assign) and len(st.targets) == 1:
                t = st.targets[0]
                if isinstance(t, ast.Subscript) and isinstance(t.value, ast.Name) and t.value.id == 'swc' \
                        and isinstance(t.slice, ast.Constant) and t.slice.value == 'label' and isinstance(st.value, ast.Constant):
                    if init is None:
                        init = st.value.value
                if isinstance(t, ast.Subscript) and isinstance(t.value, ast.Attribute) and t.value.attr == 'loc' \
                        and isinstance(t.slice, ast.Tuple) and len(t.slice.elts) == 2 \
                        and isinstance(t.slice.elts[1], ast.Constant) and t.slice.elts[1].value == 'label':
                    rules.append((_selector(t.slice.elts[0]), _const(st.value), gated))
            elif isinstance(st, ast.If):
                g = gated or (isinstance(st.test, ast.Name) and st.test.id == 'export_connectors')
                visit(st.body, g)
                visit(st.orelse, gated)
    visit(fn.body, False)
    return init, rules


def generate(repo: Path):
    path = repo / 'navis' / 'io' / 'swc_io.py'
    src = path.read_text()
    tree = ast.parse(src)
    mk = _func(tree, 'make_swc_table')
    init, rules = _label_rules(mk)
    sels = [r[0] for r in rules]
    want = ['type:branch', 'type:end', 'isin:soma', 'isin:pre_ids', 'isin:post_ids']
    if sels != want:
        raise ValueError(f'make_swc_table: label rules {sels} (expected {want} in this order)')
    gates = [r[2] for r in rules]
    if gates != [False, False, False, True, True]:
        raise ValueError(f'make_swc_table: export_connectors gating {gates}')
    if init is None:
        raise ValueError('make_swc_table: initial label not found')
    codes = dict(zip(['branch', 'end', 'soma', 'pre', 'post'], [int(r[1]) for r in rules]))
    # pre_ids / post_ids come from x.presynapses / x.postsynapses
    srcs = {}
    for n in ast.walk(mk):
        if isinstance(n, ast.Assign) and len(n.targets) == 1 and isinstance(n.targets[0], ast.Name) and n.targets[0].id in ('pre_ids', 'post_ids'):
            srcs[n.targets[0].id] = ast.unparse(n.value)
    if 'presynapses' not in srcs.get('pre_ids', '') or 'postsynapses' not in srcs.get('post_ids', ''):
        raise ValueError(f'make_swc_table: pre/post ids come from {srcs}')
    # sort: swc["_depth"] = _node_depths(swc.node_id.values, swc.parent_id.values); swc.sort_values("_depth", kind="stable")
    sort_col, sort_asc, sort_kind = None, True, 'quicksort'
    for n in ast.walk(mk):
        if isinstance(n, ast.Call) and isinstance(n.func, ast.Attribute) and n.func.attr == 'sort_values':
            sort_col = _const(n.args[0]) if n.args else None
            for kw in n.keywords:
                if kw.arg == 'ascending':
                    sort_asc = bool(_const(kw.value))
                if kw.arg == 'by':
                    sort_col = _const(kw.value)
                if kw.arg == 'kind':
                    sort_kind = str(_const(kw.value))
    if sort_col is None:
        raise ValueError('make_swc_table: sort_values call not found')
    # where the sort key comes from (a column computed in make_swc_table, or a column of the node table)
    sort_key_src = 'column of x.nodes'
    for n in ast.walk(mk):
        if isinstance(n, ast.Assign) and len(n.targets) == 1 and isinstance(n.targets[0], ast.Subscript) \
                and isinstance(n.targets[0].value, ast.Name) and n.targets[0].value.id == 'swc' \
                and isinstance(n.targets[0].slice, ast.Constant) and n.targets[0].slice.value == sort_col:
            sort_key_src = ast.unparse(n.value)
    # the depth helper: every node's depth is its parent's depth + 1, nodes without (present) parent start at 0
    depth_rule = 'n/a'
    try:
        nd = _func(tree, '_node_depths')
        txt = ast.unparse(nd)
        if 'depths.get(node, -1)' in txt and 'd += 1' in txt and 'parents[node]' in txt:
            depth_rule = 'root=0;child=parent+1'
        else:
            depth_rule = 'unrecognised'
    except ValueError:
        pass
    # new ids: dict(zip(swc.node_id.values, swc.index.values + k))
    offset = None
    for n in ast.walk(mk):
        if isinstance(n, ast.BinOp) and isinstance(n.op, ast.Add) and 'index' in ast.unparse(n.left) and isinstance(n.right, ast.Constant):
            offset = int(n.right.value)
    if offset is None:
        # `swc.index.values` without an offset
        for n in ast.walk(mk):
            if isinstance(n, ast.Assign) and isinstance(n.targets[0], ast.Name) and n.targets[0].id == 'new_ids':
                offset = 0
    if offset is None:
        raise ValueError('make_swc_table: new_ids not found')
    # parent default: new_ids.get(x, d)
    missing = None
    for n in ast.walk(mk):
        if isinstance(n, ast.Call) and isinstance(n.func, ast.Attribute) and n.func.attr == 'get' \
                and isinstance(n.func.value, ast.Name) and n.func.value.id == 'new_ids':
            missing = int(_const(n.args[1])) if len(n.args) > 1 else None
    if missing is None:
        raise ValueError('make_swc_table: new_ids.get(x, default) not found')
    # column selection swc = swc[[...]] and radius fillna
    cols, fill, fill_src = None, None, None
    for n in ast.walk(mk):
        if isinstance(n, ast.Assign) and isinstance(n.targets[0], ast.Name) and n.targets[0].id == 'swc' \
                and isinstance(n.value, ast.Subscript) and isinstance(n.value.slice, ast.List):
            cols = [_const(e) for e in n.value.slice.elts]
        if isinstance(n, ast.Assign) and isinstance(n.targets[0], ast.Subscript) and isinstance(n.targets[0].slice, ast.Constant) \
                and n.targets[0].slice.value == 'radius' and isinstance(n.value, ast.Call) and isinstance(n.value.func, ast.Attribute) \
                and n.value.func.attr == 'fillna':
            fill = _const(n.value.args[0])
            fill_src = ast.unparse(n.value.func.value)
    if cols is None or fill is None:
        raise ValueError('make_swc_table: column selection / radius fillna not found')
    # NODE_COLUMNS, reader defaults
    node_cols = None
    for n in tree.body:
        if isinstance(n, ast.Assign) and isinstance(n.targets[0], ast.Name) and n.targets[0].id == 'NODE_COLUMNS':
            node_cols = [_const(e) for e in n.value.elts]
    if node_cols is None:
        raise ValueError('NODE_COLUMNS not found')

    def default_of(fn, arg):
        a = fn.args
        names = [x.arg for x in a.args]
        defs = [None] * (len(names) - len(a.defaults)) + list(a.defaults)
        return _const(defs[names.index(arg)])
    soma_read = default_of(_func(tree, 'read_swc'), 'soma_label')
    soma_reader = default_of(_func(tree, '__init__', 'SwcReader'), 'soma_label')
    if soma_read != soma_reader:
        raise ValueError(f'soma_label defaults differ: read_swc {soma_read}, SwcReader {soma_reader}')
    # dtype of the label column in SwcReader.__init__
    label_dtype = None
    for n in ast.walk(_func(tree, '__init__', 'SwcReader')):
        if isinstance(n, ast.Dict):
            for k, v in zip(n.keys, n.values):
                if isinstance(k, ast.Constant) and k.value == 'label':
                    label_dtype = ast.unparse(v).strip('"\'')
    # write_meta=True keys and the Meta prefix
    wr = _func(tree, '_write_swc')
    meta_keys, meta_prefix = None, None
    for n in ast.walk(wr):
        if isinstance(n, ast.DictComp) and isinstance(n.generators[0].iter, ast.List):
            meta_keys = [_const(e) for e in n.generators[0].iter.elts]
        if isinstance(n, ast.JoinedStr) and n.values and isinstance(n.values[0], ast.Constant) and 'Meta' in str(n.values[0].value):
            meta_prefix = n.values[0].value
    if meta_keys is None or meta_prefix is None:
        raise ValueError('_write_swc: write_meta keys / Meta line not found')

    def strs(l):
        return '[' + ', '.join('"' + str(x) + '"' for x in l) + ']'
    lean = f'''/- GENERATED by translator/gen_swc.py from navis/io/swc_io.py.
   Do not edit: regenerated from the current source tree on every `./check C07`. -/
namespace Navis.Gen.Swc

/-- `make_swc_table`: `swc["label"] = {init}`, then `swc.loc[<selector>, "label"] = <code>` in this order:
type == branch, type == end, soma, (export_connectors:) presynapses, postsynapses. -/
def lblUndefined : Int := {int(init)}
def lblBranch : Int := {codes['branch']}
def lblEnd : Int := {codes['end']}
def lblSoma : Int := {codes['soma']}
def lblPre : Int := {codes['pre']}
def lblPost : Int := {codes['post']}
/-- `swc["{sort_col}"] = {sort_key_src}` ; `swc.sort_values("{sort_col}", ascending={sort_asc}, kind="{sort_kind}")` -/
def sortColumn : String := "{sort_col}"
def sortAscending : Bool := {'true' if sort_asc else 'false'}
def sortKind : String := "{sort_kind}"
def sortKeySource : String := "{sort_key_src}"
/-- what `_node_depths` computes (recognised shape of its loop) -/
def depthRule : String := "{depth_rule}"
/-- `dict(zip(swc.node_id.values, swc.index.values + {offset}))` -/
def firstId : Int := {offset}
/-- `new_ids.get(x, {missing})` -/
def missingParent : Int := {missing if missing >= 0 else f'({missing})'}
/-- `swc = swc[[…]]` -/
def columnOrder : List String := {strs(cols)}
/-- `swc["radius"] = {fill_src}.fillna({fill})` -/
def radiusSource : String := "{fill_src}"
def radiusFill : Int := {int(fill)}
/-- reader side -/
def nodeColumns : List String := {strs(node_cols)}
def readerSomaLabel : Int := {int(soma_read)}
def readerLabelDtype : String := "{label_dtype}"
/-- `_write_swc`: attributes written by `write_meta=True`, prefix of the meta line -/
def metaKeys : List String := {strs(meta_keys)}
def metaPrefix : String := "{meta_prefix}"

end Navis.Gen.Swc
'''
    meta = dict(source=str(path.relative_to(repo)), label_codes=codes, init=init, sort=sort_col, sort_kind=sort_kind, sort_key=sort_key_src, depth_rule=depth_rule, first_id=offset, missing_parent=missing,
                columns=cols, node_columns=node_cols, reader_soma_label=soma_read, label_dtype=label_dtype, meta_keys=meta_keys)
    return 'Swc.lean', lean, meta
