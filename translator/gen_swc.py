"""Translator for C07: re-extract the declarative parts of SWC writing / reading from the current navis source
(`navis/io/swc_io.py`, read as text, walked with `ast`; nothing is imported from navis).

* `make_swc_table`: the initial label, the label rules in source order (`swc.loc[<selector>, "label"] = <code>`:
  type == branch / end, soma, pre, post; which of them sit under `if export_connectors:`), the sort column, its source, direction and
  kind (stable), the recognised shape of the `_node_depths` loop, the offset of `swc.index.values + <k>`, the default of `new_ids.get(x, <d>)`, the column selection,
  the `fillna(<v>)` of the radius;
* `_write_swc`: the attributes written by `write_meta=True`, the `Meta:` prefix;
* `NODE_COLUMNS`, the default `soma_label` of `read_swc` / `SwcReader.__init__`, the dtype given to the `label` column.
* `_write_swc` text assembly: whether a user supplied `header` string is newline-terminated before the rows are written
  (`if not header.endswith("\\n"): header += "\\n"` on the str path), the literal lines of the generated header (every `header = / +=`
  piece, f-string holes replaced by `‹…›`, `dedent` applied) and whether every piece ends with a line break, whether the Meta line
  is only written on the generated-header path, the `csv.writer` delimiter;
* reader: `COMMENT`, `DEFAULT_DELIMITER`, `DEFAULT_PRECISION`, the defaults of `read_swc` (`delimiter`, `precision`, `read_meta`, `fmt`,
  `include_subdirs`, `limit`), the test of `read_header_rows`, the keyword arguments of `pd.read_csv`, the prefix test and slice of the Meta
  row lookup, the columns `sanitise_nodes` requires, `base.parse_precision`'s two dtype tables, `base.Writer`'s default file-name patterns.

The structure the model hard-wires (rule order, gating, override order) is *checked* here: a source that no
longer has it makes the translator fail, which the check treats as a broken tie."""
import ast
from pathlib import Path

PROPS = ['C07']


def _func(tree, name, cls=None):
    for n in ast.walk(tree):
        if cls and isinstance(n, ast.ClassDef) and n.name == cls:
            for m in n.body:
                if isinstance(m, ast.FunctionDef) and m.name == name:
                    return m
    if cls:
        raise ValueError(f'{cls}.{name} not found')
    for n in tree.body:
        if isinstance(n, ast.FunctionDef) and n.name == name:
            return n
    raise ValueError(f'function {name} not found')


def _const(n):
    if isinstance(n, ast.Constant):
        return n.value
    if isinstance(n, ast.UnaryOp) and isinstance(n.op, ast.USub) and isinstance(n.operand, ast.Constant):
        return -n.operand.value
    raise ValueError(f'not a constant: {ast.dump(n)[:80]}')


def _selector(cond):
    """swc.type == "branch" → 'type:branch';  swc.node_id.isin(soma) → 'isin:soma'."""
    if isinstance(cond, ast.Compare) and len(cond.ops) == 1 and isinstance(cond.ops[0], ast.Eq) \
            and isinstance(cond.left, ast.Attribute) and cond.left.attr == 'type':
        return 'type:' + str(_const(cond.comparators[0]))
    if isinstance(cond, ast.Call) and isinstance(cond.func, ast.Attribute) and cond.func.attr == 'isin' \
            and isinstance(cond.func.value, ast.Attribute) and cond.func.value.attr == 'node_id' and len(cond.args) == 1 \
            and isinstance(cond.args[0], ast.Name):
        return 'isin:' + cond.args[0].id
    raise ValueError(f'label rule selector not recognised: {ast.unparse(cond)}')


def _label_rules(fn):
    """[(selector, code, gated_by_export)] in source order, plus the initial label."""
    init = None
    rules = []

    def visit(stmts, gated):
        nonlocal init
        for st in stmts:
            if isinstance(st, ast.Assign) and len(st.targets) == 1:
                t = st.targets[0]
                if isinstance(t, ast.Subscript) and isinstance(t.value, ast.Name) and t.value.id == 'swc' \
                        and isinstance(t.slice, ast.Constant) and t.slice.value == 'label' and isinstance(st.value, ast.Constant):
                    if init is None:
                        init = st.value.value
                if isinstance(t, ast.Subscript) and isinstance(t.value, ast.Attribute) and t.value.attr == 'loc' \
                        and isinstance(t.slice, ast.Tuple) and len(t.slice.elts) == 2 \
                        and isinstance(t.slice.elts[1], ast.Constant) and t.slice.elts[1].value == 'label':
                    rules.append((_selector(t.slice.elts[0]), _const(st.value), gated))
            elif isinstance(st, ast.If):
                g = gated or (isinstance(st.test, ast.Name) and st.test.id == 'export_connectors')
                visit(st.body, g)
                visit(st.orelse, gated)
    visit(fn.body, False)
    return init, rules


def consts_early(tree):
    out = {}
    for n in tree.body:
        if isinstance(n, ast.Assign) and isinstance(n.targets[0], ast.Name) and isinstance(n.value, ast.Constant):
            out[n.targets[0].id] = n.value.value
    return out


def piece_text_early(js, var, consts):
    """f"{COMMENT} {line}" → the literal text put before the line ('' when the f-string is not <prefix><line>)."""
    parts = js.values
    if not parts or not isinstance(parts[-1], ast.FormattedValue) or not isinstance(parts[-1].value, ast.Name) or parts[-1].value.id != var:
        return ''
    out = ''
    for p_ in parts[:-1]:
        if isinstance(p_, ast.Constant):
            out += str(p_.value)
        elif isinstance(p_, ast.FormattedValue) and isinstance(p_.value, ast.Name) and p_.value.id in consts:
            out += str(consts[p_.value.id])
        else:
            return ''
    return out


def generate(repo: Path):
    path = repo / 'navis' / 'io' / 'swc_io.py'
    src = path.read_text()
    tree = ast.parse(src)
    mk = _func(tree, 'make_swc_table')
    init, rules = _label_rules(mk)
    sels = [r[0] for r in rules]
    want = ['type:branch', 'type:end', 'isin:soma', 'isin:pre_ids', 'isin:post_ids']
    # every rule the model knows must be present exactly once; their ORDER and GATING are data (`labelRules`), the theorem
    # `Props.C07.label_rules_as_written` proves that the sequential assignments in this order compute the model's `autoLabel`
    if sorted(sels) != sorted(want):
        raise ValueError(f'make_swc_table: label rules {sels} (expected the selectors {want})')
    if init is None:
        raise ValueError('make_swc_table: initial label not found')
    by_sel = {r[0]: int(r[1]) for r in rules}
    codes = dict(branch=by_sel['type:branch'], end=by_sel['type:end'], soma=by_sel['isin:soma'], pre=by_sel['isin:pre_ids'], post=by_sel['isin:post_ids'])
    # pre_ids / post_ids come from x.presynapses / x.postsynapses
    srcs = {}
    for n in ast.walk(mk):
        if isinstance(n, ast.Assign) and len(n.targets) == 1 and isinstance(n.targets[0], ast.Name) and n.targets[0].id in ('pre_ids', 'post_ids'):
            srcs[n.targets[0].id] = ast.unparse(n.value)
    if 'presynapses' not in srcs.get('pre_ids', '') or 'postsynapses' not in srcs.get('post_ids', ''):
        raise ValueError(f'make_swc_table: pre/post ids come from {srcs}')
    # sort: swc["_depth"] = _node_depths(swc.node_id.values, swc.parent_id.values); swc.sort_values("_depth", kind="stable")
    sort_col, sort_asc, sort_kind = None, True, 'quicksort'
    for n in ast.walk(mk):
        if isinstance(n, ast.Call) and isinstance(n.func, ast.Attribute) and n.func.attr == 'sort_values':
            sort_col = _const(n.args[0]) if n.args else None
            for kw in n.keywords:
                if kw.arg == 'ascending':
                    sort_asc = bool(_const(kw.value))
                if kw.arg == 'by':
                    sort_col = _const(kw.value)
                if kw.arg == 'kind':
                    sort_kind = str(_const(kw.value))
    if sort_col is None:
        raise ValueError('make_swc_table: sort_values call not found')
    # where the sort key comes from (a column computed in make_swc_table, or a column of the node table)
    sort_key_src = 'column of x.nodes'
    for n in ast.walk(mk):
        if isinstance(n, ast.Assign) and len(n.targets) == 1 and isinstance(n.targets[0], ast.Subscript) \
                and isinstance(n.targets[0].value, ast.Name) and n.targets[0].value.id == 'swc' \
                and isinstance(n.targets[0].slice, ast.Constant) and n.targets[0].slice.value == sort_col:
            sort_key_src = ast.unparse(n.value)
    # the depth helper: every node's depth is its parent's depth + 1, nodes without (present) parent start at 0
    depth_rule = 'n/a'
    try:
        nd = _func(tree, '_node_depths')
        txt = ast.unparse(nd)
        if 'depths.get(node, -1)' in txt and 'd += 1' in txt and 'parents[node]' in txt:
            depth_rule = 'root=0;child=parent+1'
        else:
            depth_rule = 'unrecognised'
    except ValueError:
        pass
    # new ids: dict(zip(swc.node_id.values, swc.index.values + k))
    offset = None
    for n in ast.walk(mk):
        if isinstance(n, ast.BinOp) and isinstance(n.op, ast.Add) and 'index' in ast.unparse(n.left) and isinstance(n.right, ast.Constant):
            offset = int(n.right.value)
    if offset is None:
        # `swc.index.values` without an offset
        for n in ast.walk(mk):
            if isinstance(n, ast.Assign) and isinstance(n.targets[0], ast.Name) and n.targets[0].id == 'new_ids':
                offset = 0
    if offset is None:
        raise ValueError('make_swc_table: new_ids not found')
    # parent default: new_ids.get(x, d)
    missing = None
    for n in ast.walk(mk):
        if isinstance(n, ast.Call) and isinstance(n.func, ast.Attribute) and n.func.attr == 'get' \
                and isinstance(n.func.value, ast.Name) and n.func.value.id == 'new_ids':
            missing = int(_const(n.args[1])) if len(n.args) > 1 else None
    if missing is None:
        raise ValueError('make_swc_table: new_ids.get(x, default) not found')
    # column selection swc = swc[[...]] and radius fillna
    cols, fill, fill_src = None, None, None
    for n in ast.walk(mk):
        if isinstance(n, ast.Assign) and isinstance(n.targets[0], ast.Name) and n.targets[0].id == 'swc' \
                and isinstance(n.value, ast.Subscript) and isinstance(n.value.slice, ast.List):
            cols = [_const(e) for e in n.value.slice.elts]
        if isinstance(n, ast.Assign) and isinstance(n.targets[0], ast.Subscript) and isinstance(n.targets[0].slice, ast.Constant) \
                and n.targets[0].slice.value == 'radius' and isinstance(n.value, ast.Call) and isinstance(n.value.func, ast.Attribute) \
                and n.value.func.attr == 'fillna':
            fill = _const(n.value.args[0])
            fill_src = ast.unparse(n.value.func.value)
    if cols is None or fill is None:
        raise ValueError('make_swc_table: column selection / radius fillna not found')
    # NODE_COLUMNS, reader defaults
    node_cols = None
    for n in tree.body:
        if isinstance(n, ast.Assign) and isinstance(n.targets[0], ast.Name) and n.targets[0].id == 'NODE_COLUMNS':
            node_cols = [_const(e) for e in n.value.elts]
    if node_cols is None:
        raise ValueError('NODE_COLUMNS not found')

    def default_of(fn, arg):
        a = fn.args
        names = [x.arg for x in a.args]
        defs = [None] * (len(names) - len(a.defaults)) + list(a.defaults)
        return _const(defs[names.index(arg)])
    soma_read = default_of(_func(tree, 'read_swc'), 'soma_label')
    soma_reader = default_of(_func(tree, '__init__', 'SwcReader'), 'soma_label')
    if soma_read != soma_reader:
        raise ValueError(f'soma_label defaults differ: read_swc {soma_read}, SwcReader {soma_reader}')
    # dtype of the label column in SwcReader.__init__
    label_dtype = None
    for n in ast.walk(_func(tree, '__init__', 'SwcReader')):
        if isinstance(n, ast.Dict):
            for k, v in zip(n.keys, n.values):
                if isinstance(k, ast.Constant) and k.value == 'label':
                    label_dtype = ast.unparse(v).strip('"\'')
    # write_meta=True keys and the Meta prefix
    wr = _func(tree, '_write_swc')
    meta_keys, meta_prefix = None, None
    for n in ast.walk(wr):
        if isinstance(n, ast.DictComp) and isinstance(n.generators[0].iter, ast.List):
            meta_keys = [_const(e) for e in n.generators[0].iter.elts]
        if isinstance(n, ast.JoinedStr) and n.values and isinstance(n.values[0], ast.Constant) and 'Meta' in str(n.values[0].value):
            meta_prefix = n.values[0].value
    if meta_keys is None or meta_prefix is None:
        raise ValueError('_write_swc: write_meta keys / Meta line not found')

    # ------------------------------------------------------------------ text assembly in _write_swc
    import textwrap

    def is_name(n, name):
        return isinstance(n, ast.Name) and n.id == name

    def nl_const(n):
        return isinstance(n, ast.Constant) and n.value == '\n'

    def ends_with_nl_test(t):
        """`not header.endswith("\n")`"""
        return isinstance(t, ast.UnaryOp) and isinstance(t.op, ast.Not) and isinstance(t.operand, ast.Call) \
            and isinstance(t.operand.func, ast.Attribute) and t.operand.func.attr == 'endswith' and is_name(t.operand.func.value, 'header') \
            and len(t.operand.args) == 1 and nl_const(t.operand.args[0])

    def appends_nl(st):
        if isinstance(st, ast.AugAssign) and isinstance(st.op, ast.Add) and is_name(st.target, 'header') and nl_const(st.value):
            return True
        if isinstance(st, ast.Assign) and len(st.targets) == 1 and is_name(st.targets[0], 'header') and isinstance(st.value, ast.BinOp) \
                and isinstance(st.value.op, ast.Add) and is_name(st.value.left, 'header') and nl_const(st.value.right):
            return True
        return False

    def generated_branch_test(t):
        """`not isinstance(header, str)` / `header is None`"""
        txt = ast.unparse(t).replace(' ', '')
        return txt in ('notisinstance(header,str)', 'headerisNone', 'notheader', 'header==None')

    # the If that separates "generate a header" from "use the given string"
    gen_if = None
    for n in ast.walk(wr):
        if isinstance(n, ast.If) and generated_branch_test(n.test):
            gen_if = n
            break
    if gen_if is None:
        raise ValueError('_write_swc: the `if not isinstance(header, str)` split was not found')
    gen_nodes = set()
    for st in gen_if.body:
        for n in ast.walk(st):
            gen_nodes.add(id(n))
    # newline termination of a given header: an `if not header.endswith("\n"): header += "\n"` that is NOT inside the generated branch
    # and sits before the file is opened
    terminated = False
    for n in ast.walk(wr):
        if isinstance(n, ast.If) and id(n) not in gen_nodes and ends_with_nl_test(n.test) and any(appends_nl(b) for b in n.body):
            terminated = True
    # comment prefixing of a given header: on the str path `header` is rebuilt line by line (`header.split("\n")` … `"\n".join`) keeping a
    # line that `startswith(COMMENT)` or is blank and prepending the comment character (and a blank) otherwise
    commented, comment_prefix = False, ''
    for n in ast.walk(wr):
        if isinstance(n, ast.Assign) and id(n) not in gen_nodes and len(n.targets) == 1 and is_name(n.targets[0], 'header'):
            v = n.value
            if isinstance(v, ast.Call) and isinstance(v.func, ast.Attribute) and v.func.attr == 'join' and nl_const(v.func.value) and v.args \
                    and isinstance(v.args[0], (ast.GeneratorExp, ast.ListComp)):
                comp = v.args[0]
                it = comp.generators[0].iter
                splits_nl = isinstance(it, ast.Call) and isinstance(it.func, ast.Attribute) and it.func.attr == 'split' and is_name(it.func.value, 'header') \
                    and len(it.args) == 1 and nl_const(it.args[0])
                elt = comp.elt
                if splits_nl and isinstance(elt, ast.IfExp):
                    test_txt = ast.unparse(elt.test).replace(' ', '')
                    keeps = 'startswith(COMMENT)' in test_txt and "strip('\\r')" in test_txt and ast.unparse(elt.body) == comp.generators[0].target.id
                    if keeps and isinstance(elt.orelse, ast.JoinedStr):
                        comment_prefix = piece_text_early(elt.orelse, comp.generators[0].target.id, consts_early(tree))
                        commented = comment_prefix != ''
    # pieces of the generated header, in source order

    def piece_text(v):
        """string a `header = / +=` statement contributes; f-string holes become ‹expr›; dedent(...) applied."""
        if isinstance(v, ast.Call) and (is_name(v.func, 'dedent') or (isinstance(v.func, ast.Attribute) and v.func.attr == 'dedent')) and len(v.args) == 1:
            return textwrap.dedent(piece_text(v.args[0]))
        if isinstance(v, ast.Constant) and isinstance(v.value, str):
            return v.value
        if isinstance(v, ast.JoinedStr):
            out = ''
            for part in v.values:
                if isinstance(part, ast.Constant):
                    out += str(part.value)
                else:
                    out += '‹' + ast.unparse(part.value) + '›'
            return out
        raise ValueError(f'_write_swc: header piece not understood: {ast.unparse(v)[:80]}')
    pieces = []          # (text, gated-by)

    def visit_hdr(stmts, gate):
        for st in stmts:
            if isinstance(st, ast.Assign) and len(st.targets) == 1 and is_name(st.targets[0], 'header'):
                pieces.append((piece_text(st.value), gate))
            elif isinstance(st, ast.AugAssign) and isinstance(st.op, ast.Add) and is_name(st.target, 'header'):
                pieces.append((piece_text(st.value), gate))
            elif isinstance(st, ast.If):
                visit_hdr(st.body, (gate + '&' if gate else '') + ast.unparse(st.test))
                visit_hdr(st.orelse, gate)
    visit_hdr(gen_if.body, '')
    if not pieces:
        raise ValueError('_write_swc: no generated header pieces found')
    hdr_lines, hdr_gates = [], []
    for txt, g_ in pieces:
        ls = txt.split('\n')
        if ls and ls[-1] == '':
            ls = ls[:-1]
        hdr_lines += ls
        hdr_gates += [g_] * len(ls)
    hdr_pieces_terminated = all(t.endswith('\n') for t, _ in pieces)
    meta_gates = [g for t, g in pieces if 'Meta' in t]
    meta_only_generated = bool(meta_gates)       # the Meta piece was found inside the generated branch
    # no Meta piece outside the generated branch
    for n in ast.walk(wr):
        if isinstance(n, ast.JoinedStr) and id(n) not in gen_nodes and n.values and isinstance(n.values[0], ast.Constant) and 'Meta' in str(n.values[0].value):
            meta_only_generated = False
    # csv.writer(file, delimiter=" ")
    write_delim, write_lineterm = None, '\\r\\n'
    for n in ast.walk(wr):
        if isinstance(n, ast.Call) and isinstance(n.func, ast.Attribute) and n.func.attr == 'writer' and is_name(n.func.value, 'csv'):
            write_delim = ','
            for kw in n.keywords:
                if kw.arg == 'delimiter':
                    write_delim = str(_const(kw.value))
                if kw.arg == 'lineterminator':
                    write_lineterm = str(_const(kw.value)).replace('\r', '\\r').replace('\n', '\\n')
    if write_delim is None:
        raise ValueError('_write_swc: csv.writer call not found')
    # header written before the rows
    order = []
    for n in ast.walk(wr):
        if isinstance(n, ast.Call) and isinstance(n.func, ast.Attribute) and n.func.attr == 'write' and n.args and is_name(n.args[0], 'header'):
            order.append(('header', n.lineno))
        if isinstance(n, ast.Call) and isinstance(n.func, ast.Attribute) and n.func.attr == 'writerows':
            order.append(('rows', n.lineno))
    order = [k for k, _ in sorted(order, key=lambda t: t[1])]
    # ------------------------------------------------------------------ reader constants and defaults
    consts = {}
    for n in tree.body:
        if isinstance(n, ast.Assign) and isinstance(n.targets[0], ast.Name) and n.targets[0].id in ('COMMENT', 'DEFAULT_DELIMITER', 'DEFAULT_PRECISION', 'DEFAULT_FMT'):
            consts[n.targets[0].id] = _const(n.value)
    for k in ('COMMENT', 'DEFAULT_DELIMITER', 'DEFAULT_PRECISION', 'DEFAULT_FMT'):
        if k not in consts:
            raise ValueError(f'{k} not found')
    rs = _func(tree, 'read_swc')
    rd_delim = default_of(rs, 'delimiter')
    rd_prec = default_of(rs, 'precision')
    rd_meta = default_of(rs, 'read_meta')
    rd_fmt = default_of(rs, 'fmt')
    rd_subdirs = default_of(rs, 'include_subdirs')
    rd_limit = default_of(rs, 'limit')
    # read_header_rows: `if not line.startswith(COMMENT): break`
    rh = _func(tree, 'read_header_rows')
    hdr_test = None
    for n in ast.walk(rh):
        if isinstance(n, ast.If) and any(isinstance(b, ast.Break) for b in n.body):
            t_ = n.test
            # `not <line>.startswith(COMMENT | "#")`, whatever the loop variable is called
            if isinstance(t_, ast.UnaryOp) and isinstance(t_.op, ast.Not) and isinstance(t_.operand, ast.Call) and isinstance(t_.operand.func, ast.Attribute) \
                    and t_.operand.func.attr == 'startswith' and len(t_.operand.args) == 1 \
                    and (is_name(t_.operand.args[0], 'COMMENT') or (isinstance(t_.operand.args[0], ast.Constant) and t_.operand.args[0].value == consts['COMMENT'])):
                hdr_test = 'not-startswith-comment'
            else:
                hdr_test = ast.unparse(t_)
    # read_csv keywords
    rb = _func(tree, 'read_buffer', 'SwcReader')
    csv_kw = {}
    for n in ast.walk(rb):
        if isinstance(n, ast.Call) and isinstance(n.func, ast.Attribute) and n.func.attr == 'read_csv':
            for kw in n.keywords:
                v_ = kw.value
                if isinstance(v_, ast.Name) and v_.id in consts:
                    csv_kw[kw.arg] = str(consts[v_.id])          # module constant → its value
                elif isinstance(v_, ast.Constant):
                    csv_kw[kw.arg] = str(v_.value)
                else:
                    csv_kw[kw.arg] = ast.unparse(v_)
    if not csv_kw:
        raise ValueError('SwcReader.read_buffer: pd.read_csv call not found')
    # Meta row lookup: r.lower().startswith("# meta:") ; meta_row[0][7:]
    meta_lookup, meta_slice = None, None
    for n in ast.walk(rb):
        if isinstance(n, ast.Call) and isinstance(n.func, ast.Attribute) and n.func.attr == 'startswith' and n.args and isinstance(n.args[0], ast.Constant) \
                and 'meta' in str(n.args[0].value).lower():
            meta_lookup = ('lower:' if '.lower()' in ast.unparse(n.func.value) else 'exact:') + str(n.args[0].value)
        if isinstance(n, ast.Subscript) and isinstance(n.slice, ast.Slice) and n.slice.lower is not None and n.slice.upper is None \
                and 'meta_row' in ast.unparse(n.value):
            meta_slice = int(_const(n.slice.lower))
    if meta_lookup is None or meta_slice is None:
        raise ValueError('SwcReader.read_buffer: Meta row lookup not found')
    # sanitise_nodes: columns whose NaN drops the row
    sn = _func(tree, 'sanitise_nodes')
    key_cols = None
    for n in ast.walk(sn):
        if isinstance(n, ast.Subscript) and isinstance(n.slice, ast.List) and all(isinstance(e, ast.Constant) for e in n.slice.elts):
            key_cols = [str(e.value) for e in n.slice.elts]
            break
    if key_cols is None:
        raise ValueError('sanitise_nodes: key column list not found')
    # base.parse_precision tables, base.Writer patterns
    bpath = repo / 'navis' / 'io' / 'base.py'
    btree = ast.parse(bpath.read_text())
    pp = _func(btree, 'parse_precision')
    tables = {}
    for n in ast.walk(pp):
        if isinstance(n, ast.Assign) and isinstance(n.targets[0], ast.Name) and n.targets[0].id in ('INT_DTYPES', 'FLOAT_DTYPES') and isinstance(n.value, ast.Dict):
            tables[n.targets[0].id] = {(_const(k)): ast.unparse(v).replace('np.', '').replace('numpy.', '') for k, v in zip(n.value.keys, n.value.values)}
    if set(tables) != {'INT_DTYPES', 'FLOAT_DTYPES'}:
        raise ValueError('base.parse_precision: dtype tables not found')
    ret_order = None
    for n in ast.walk(pp):
        if isinstance(n, ast.Return) and isinstance(n.value, ast.Tuple):
            ret_order = [ast.unparse(e).split('[')[0] for e in n.value.elts]
    if ret_order != ['INT_DTYPES', 'FLOAT_DTYPES']:
        raise ValueError(f'base.parse_precision: returns {ret_order}')
    precs = sorted(k for k in tables['INT_DTYPES'] if k is not None)
    prec_rows = [(int(k), tables['INT_DTYPES'][k], tables['FLOAT_DTYPES'].get(k, '?')) for k in precs]
    # which dtype each column gets in SwcReader.__init__: int_ / float_
    col_kind = {}
    for n in ast.walk(_func(tree, '__init__', 'SwcReader')):
        if isinstance(n, ast.Dict):
            for k, v in zip(n.keys, n.values):
                if isinstance(k, ast.Constant):
                    col_kind[str(k.value)] = ast.unparse(v).strip('"\'')
    # read_dataframe: the ID columns are widened when the requested integer width cannot hold them:
    # `for wider in (int_, np.int32, np.int64): if info.min <= lo and hi <= info.max: break`
    widening, widen_first_requested = [], False
    for n in ast.walk(_func(tree, 'read_dataframe', 'SwcReader')):
        if isinstance(n, ast.For) and isinstance(n.iter, (ast.Tuple, ast.List)) and any(isinstance(b, ast.If) and any(isinstance(c, ast.Break) for c in b.body) for b in n.body):
            names = [ast.unparse(e).replace('np.', '').replace('numpy.', '') for e in n.iter.elts]
            if all(x == 'int_' or x in ('int8', 'int16', 'int32', 'int64') for x in names) and names:
                widen_first_requested = names[0] == 'int_'
                widening = [int(x[3:]) for x in names if x != 'int_']
    # Writer: generated file name in a folder / zip
    ws = _func(btree, 'write_single', 'Writer')
    wz = _func(btree, 'write_zip', 'Writer')
    folder_name = None
    for n in ast.walk(ws):
        # filepath / f"{x.<attr>}{self.ext}": the attribute of the neuron that names the file
        if isinstance(n, ast.JoinedStr) and n.values and isinstance(n.values[0], ast.FormattedValue) and isinstance(n.values[0].value, ast.Attribute) \
                and is_name(n.values[0].value.value, 'x'):
            folder_name = n.values[0].value.attr
    zip_pattern = None
    for n in ast.walk(wz):
        if isinstance(n, ast.Assign) and is_name(n.targets[0], 'pattern') and isinstance(n.value, ast.BinOp) and isinstance(n.value.left, ast.Constant):
            zip_pattern = str(n.value.left.value)
    if folder_name is None or zip_pattern is None:
        raise ValueError('base.Writer: default file-name patterns not found')
    # parallel_read_archive / read_tar / read_directory: how an integer `limit` is applied
    limit_rules = {}
    for fname, cls in (('parallel_read_archive', None), ('read_tar', 'BaseReader'), ('read_directory', 'BaseReader')):
        f_ = _func(btree, fname, cls)
        rule = None
        for n in ast.walk(f_):
            if isinstance(n, ast.If) and 'isinstance(limit, int)' in ast.unparse(n.test):
                rule = ast.unparse(n.test) + ' => ' + '; '.join(ast.unparse(b) for b in n.body)
                break
        limit_rules[fname] = rule or 'none'
    # which reader methods every source kind is funnelled through: `self.<method>(…)` calls inside the BaseReader source methods
    # (SwcReader overrides read_buffer / read_dataframe only)
    br = None
    for n in btree.body:
        if isinstance(n, ast.ClassDef) and n.name == 'BaseReader':
            br = n
    src_methods = ['read_file_path', 'read_from_zip', 'read_zip', 'read_tar', 'read_directory', 'read_url', 'read_string', 'read_bytes', 'read_any_single',
                   'read_any_multi', 'read_any']
    funnel = []
    br_methods = {m_.name for m_ in br.body if isinstance(m_, ast.FunctionDef)}
    for m_ in br.body:
        if isinstance(m_, ast.FunctionDef) and m_.name in src_methods:
            callees = []
            for n in ast.walk(m_):
                if isinstance(n, ast.Attribute) and is_name(n.value, 'self') and n.attr in br_methods and n.attr.startswith('read_') and n.attr != m_.name and n.attr not in callees:
                    callees.append(n.attr)
            funnel.append((m_.name, callees))
    overrides = []
    for n in tree.body:
        if isinstance(n, ast.ClassDef) and n.name == 'SwcReader':
            overrides = [m_.name for m_ in n.body if isinstance(m_, ast.FunctionDef) and m_.name.startswith('read_')]
    # `read_any_single`: the type tests in order
    ras = _func(btree, 'read_any_single', 'BaseReader')
    dispatch = []
    for st in ras.body:
        if isinstance(st, ast.If):
            dispatch.append(ast.unparse(st.test))

    def lstr(x):
        return '"' + str(x).replace('\\', '\\\\').replace('"', '\\"') + '"'

    def strs(l):
        return '[' + ', '.join('"' + str(x) + '"' for x in l) + ']'
    lean = f'''/- GENERATED by translator/gen_swc.py from navis/io/swc_io.py.
   Do not edit: regenerated from the current source tree on every `./check C07`. -/
namespace Navis.Gen.Swc

/-- `make_swc_table`: `swc["label"] = {init}`, then `swc.loc[<selector>, "label"] = <code>` in this order:
type == branch, type == end, soma, (export_connectors:) presynapses, postsynapses. -/
def lblUndefined : Int := {int(init)}
def lblBranch : Int := {codes['branch']}
def lblEnd : Int := {codes['end']}
def lblSoma : Int := {codes['soma']}
def lblPre : Int := {codes['pre']}
def lblPost : Int := {codes['post']}
/-- the rules in source order: (selector, code, only under `if export_connectors:`) -/
def labelRules : List (String × Int × Bool) := [{', '.join('("' + r_[0] + '", ' + str(int(r_[1])) + ', ' + ('true' if r_[2] else 'false') + ')' for r_ in rules)}]
/-- `swc["{sort_col}"] = {sort_key_src}` ; `swc.sort_values("{sort_col}", ascending={sort_asc}, kind="{sort_kind}")` -/
def sortColumn : String := "{sort_col}"
def sortAscending : Bool := {'true' if sort_asc else 'false'}
def sortKind : String := "{sort_kind}"
def sortKeySource : String := "{sort_key_src}"
/-- what `_node_depths` computes (recognised shape of its loop) -/
def depthRule : String := "{depth_rule}"
/-- `dict(zip(swc.node_id.values, swc.index.values + {offset}))` -/
def firstId : Int := {offset}
/-- `new_ids.get(x, {missing})` -/
def missingParent : Int := {missing if missing >= 0 else f'({missing})'}
/-- `swc = swc[[…]]` -/
def columnOrder : List String := {strs(cols)}
/-- `swc["radius"] = {fill_src}.fillna({fill})` -/
def radiusSource : String := "{fill_src}"
def radiusFill : Int := {int(fill)}
/-- reader side -/
def nodeColumns : List String := {strs(node_cols)}
def readerSomaLabel : Int := {int(soma_read)}
def readerLabelDtype : String := "{label_dtype}"
/-- `_write_swc`: attributes written by `write_meta=True`, prefix of the meta line -/
def metaKeys : List String := {strs(meta_keys)}
def metaPrefix : String := "{meta_prefix}"
/-- `_write_swc`, a user supplied `header=` string: `if not header.endswith("\\n"): header += "\\n"` is present on the str path -/
def headerTerminated : Bool := {'true' if terminated else 'false'}
/-- `_write_swc`, a user supplied `header=` string is rebuilt line by line (`split("\\n")` / `"\\n".join`): a line that starts with the comment
character or is blank (empty up to `\\r`) is kept, every other line gets this text prepended ("" = lines are written verbatim) -/
def headerCommentPrefix : String := {lstr(comment_prefix) if commented else '""'}
/-- the literal lines of the generated header in source order (f-string holes as ‹expr›), every piece ends with a line break,
the Meta line is only written on the generated-header path -/
def genericHeaderLines : List String := [{', '.join(lstr(x) for x in hdr_lines)}]
/-- the `if` conditions under which each of these lines is written ("" = always) -/
def genericHeaderGates : List String := [{', '.join(lstr(x) for x in hdr_gates)}]
def genericHeaderPiecesTerminated : Bool := {'true' if hdr_pieces_terminated else 'false'}
def metaOnlyWithGeneratedHeader : Bool := {'true' if meta_only_generated else 'false'}
/-- `file.write(header)` … `csv.writer(file, delimiter=…).writerows(…)` -/
def writeOrder : List String := {strs(order)}
def writeDelimiter : String := {lstr(write_delim)}
def writeLineTerminator : String := "{write_lineterm}"
/-- reader constants and `read_swc` defaults -/
def commentChar : String := {lstr(consts['COMMENT'])}
def defaultDelimiter : String := {lstr(consts['DEFAULT_DELIMITER'])}
def readDelimiterDefault : String := {lstr(rd_delim)}
def defaultPrecision : Nat := {int(consts['DEFAULT_PRECISION'])}
def readPrecisionDefault : Nat := {int(rd_prec)}
def readMetaDefault : Bool := {'true' if rd_meta else 'false'}
def readFmtDefault : String := {lstr(rd_fmt)}
def defaultFmt : String := {lstr(consts['DEFAULT_FMT'])}
def includeSubdirsDefault : Bool := {'true' if rd_subdirs else 'false'}
def limitDefaultIsNone : Bool := {'true' if rd_limit is None else 'false'}
/-- `read_header_rows`: the loop stops at the first line with … -/
def headerRowTest : String := {lstr(hdr_test)}
/-- keyword arguments of `pd.read_csv` in `SwcReader.read_buffer` -/
def readCsvArgs : List (String × String) := [{', '.join('(' + lstr(k) + ', ' + lstr(v) + ')' for k, v in sorted(csv_kw.items()))}]
/-- Meta row lookup `r.lower().startswith(…)` and the slice `meta_row[0][k:]` -/
def metaLookup : String := {lstr(meta_lookup)}
def metaSlice : Nat := {meta_slice}
/-- `sanitise_nodes`: a NaN in one of these columns drops the row -/
def keyColumns : List String := {strs(key_cols)}
/-- `base.parse_precision`: precision → (integer dtype, float dtype); which of the two every column is cast to -/
def precisionTable : List (Nat × String × String) := [{', '.join('(' + str(p_) + ', ' + lstr(i_) + ', ' + lstr(f_) + ')' for p_, i_, f_ in prec_rows)}]
/-- `SwcReader.read_dataframe`: integer widths tried after the requested one for the ID columns (`[]` = IDs are cast to the requested width
whatever their values) -/
def idWidening : List Nat := [{', '.join(str(b_) for b_ in widening)}]
def idWideningStartsWithRequested : Bool := {'true' if widen_first_requested else 'false'}
def columnDtypeKind : List (String × String) := [{', '.join('(' + lstr(k) + ', ' + lstr(v) + ')' for k, v in col_kind.items())}]
/-- `base.Writer`: generated file name in a folder, default pattern in a zip -/
def folderFileNameAttr : String := {lstr(folder_name)}
def zipPattern : String := {lstr(zip_pattern)}
/-- `BaseReader`: the `self.read_*` methods each source method refers to (calls or hands to a pool); the `read_*` methods `SwcReader` defines -/
def sourceFunnel : List (String × List String) := [{', '.join('(' + lstr(a) + ', ' + strs(b) + ')' for a, b in funnel)}]
def swcReaderMethods : List String := {strs(overrides)}

end Navis.Gen.Swc
'''
    meta = dict(source=str(path.relative_to(repo)), label_codes=codes, init=init, sort=sort_col, sort_kind=sort_kind, sort_key=sort_key_src, depth_rule=depth_rule, first_id=offset, missing_parent=missing,
                columns=cols, node_columns=node_cols, reader_soma_label=soma_read, label_dtype=label_dtype, meta_keys=meta_keys,
                id_widening=widening, header_terminated=terminated, header_comment_prefix=comment_prefix, generic_header_lines=hdr_lines, write_delimiter=write_delim, read_csv=csv_kw, meta_lookup=meta_lookup,
                meta_slice=meta_slice, key_columns=key_cols, precision_table=prec_rows, limit_rules=limit_rules, source_funnel=funnel, read_any_single_tests=dispatch, folder_file_name=folder_name, zip_pattern=zip_pattern)
    return 'Swc.lean', lean, meta
