"""Translator for C17: re-extract the declarative facts of navis' morphometrics from the *current* source
(`navis/morpho/mmetrics.py`, read as text, walked with `ast`; nothing is imported from navis) and emit them as Lean
definitions (`Gen/Mmetrics.lean`).  `Props/C17.lean` proves that they are what the Lean models hard-wire
(`strahlerRule`, `centrifugal` / `centripetal`, `leafFormula`, `bendAt`, `segIdxG` with the logarithmic entropy,
`frustum3`, the fork-max rule, which end of a segment each `segment_analysis` column reads), so that an edit of

* `strahler_index`: the branch chain of the rule (`0` for ignored, `1` for leafs, `== 1` child, `sum` for greedy,
  `count(max) >= 2`, `+ 1`), the forking-root test `> 1`, the walk condition, `len(seg) < min_twig_size`, the
  fix-up (`s[0]`, `this_seg[-1]`, default 1), what is forwarded to navis-fastcore, the `method` literals;
* `synapse_flow_centrality` / `flow_centrality`: the `mode` literals and default, the formulas
  `(total_post − distal_post)·distal_pre`, `distal_post·(total_pre − distal_pre)`, their sum, `(L − d)·d` and the node types it is
  evaluated at (branch points, leafs, roots), which formula each mode selects, which connector type feeds `presynapses=` / `postsynapses=` of navis-fastcore, the
  fork rule (`type == "branch"`, `groupby("parent_id")`, `.max()`, assignment through `.loc[bp]` — by id, not by
  position), the segment propagation (`s[i − 1]`, default 0), `directed=True`, `< np.inf`;
* `bending_flow`: `degree(root) > 1`, `permutations(…, r=2)`, which factor is indexed by which branch, `any(isin(…))`;
* `segregation_index` / `arbor_segregation_index`: `0 < p < 1`, the entropy expression, `1 − S / S_norm`, the `0`
  fall-back, numerators (`postsynapses`, `total_post`), the two fragments of a cut;
* `tortuosity`, `segment_analysis`: `L / R`, `.mean()`, `s[0]` / `s[-1]` per column, the frustum formula, `s[:-1]`,
  `.fillna(0)`, `root_dist=0`, and that no value is stored through `.values[…]` (the pandas-3 defect fixed in 416ff90);
* the decorators of every entry point (`map_neuronlist`, `meshneuron_skeleton`, their keyword arguments)

makes a theorem stop checking.  Only these facts are extracted (operators, constants, names of the quantities that are
combined, decorator names): renaming a loop variable, reordering independent statements, adding logging or comments
keeps the tie.  Anything that is not found in the expected shape raises (a broken tie is reported, never guessed)."""
import ast
from pathlib import Path

PROPS = ['C17']


# ------------------------------------------------------------------------------------------------ helpers
def _func(tree, name):
    for n in tree.body:
        if isinstance(n, ast.FunctionDef) and n.name == name:
            return n
    raise ValueError(f'function {name} not found')


def _defaults(fn):
    a = fn.args
    pos = a.posonlyargs + a.args
    out = {p.arg: ast.unparse(d) for p, d in zip(pos[len(pos) - len(a.defaults):], a.defaults)}
    out.update({p.arg: ast.unparse(d) for p, d in zip(a.kwonlyargs, a.kw_defaults) if d is not None})
    return out


def _decorators(fn):
    out = []
    for d in fn.decorator_list:
        f = d.func if isinstance(d, ast.Call) else d
        name = ast.unparse(f).split('.')[-1]
        kws = sorted(f'{k.arg}={ast.unparse(k.value)}' for k in d.keywords if k.arg != 'desc') if isinstance(d, ast.Call) else []   # free-text `desc=` is not a fact
        out.append((name, kws))
    return out


def _op(n):
    return type(n).__name__


def _const(n):
    if isinstance(n, ast.Constant):
        return n.value
    if isinstance(n, ast.UnaryOp) and isinstance(n.op, ast.USub) and isinstance(n.operand, ast.Constant):
        return -n.operand.value
    return None


def _one(lst, what):
    if len(lst) != 1:
        raise ValueError(f'{what}: expected exactly one occurrence, found {len(lst)}')
    return lst[0]


def _same(vals, what):
    vals = list(vals)
    if not vals or any(v != vals[0] for v in vals):
        raise ValueError(f'{what}: expected one consistent value, found {sorted(set(map(str, vals)))}')
    return vals[0]


def _calls(node, name):
    out = []
    for n in ast.walk(node):
        if isinstance(n, ast.Call):
            f = n.func
            last = f.attr if isinstance(f, ast.Attribute) else (f.id if isinstance(f, ast.Name) else None)
            if last == name:
                out.append(n)
    return out


def _kw(call, name):
    for k in call.keywords:
        if k.arg == name:
            return k.value
    return None


def _assigns(node, target):
    """assignments whose (single) target unparses to `target`"""
    return [n for n in ast.walk(node) if isinstance(n, ast.Assign) and len(n.targets) == 1 and ast.unparse(n.targets[0]) == target]


def _leaf_name(n):
    """name of a non-arithmetic leaf: a subscript by a bare name / by a string key is normalised"""
    if isinstance(n, ast.Name):
        return n.id
    if isinstance(n, ast.Subscript):
        base = n.value
        if isinstance(base, ast.Attribute) and base.attr == 'loc':
            base = base.value
        if isinstance(n.slice, ast.Name):
            return _leaf_name(base)                       # total_post[n] -> total_post
        if isinstance(n.slice, ast.Constant) and isinstance(n.slice.value, str):
            return n.slice.value                          # n["postsynapses"] -> postsynapses
    if isinstance(n, ast.Call) and isinstance(n.func, ast.Attribute) and n.func.attr == 'get' and len(n.args) == 2 \
            and _const(n.args[1]) == 0:
        return _leaf_name(n.func.value) + '.get0'         # d.get(key, 0) -> d.get0
    if isinstance(n, ast.Attribute) and isinstance(n.value, ast.Name):
        return f'{n.value.id}.{n.attr}'
    raise ValueError(f'unsupported leaf in a formula: {ast.unparse(n)}')


def to_E(n):
    """Python arithmetic -> Lean `Navis.PyExpr.E` term (as source text)"""
    if isinstance(n, ast.BinOp):
        if isinstance(n.op, ast.Pow):
            k = _const(n.right)
            if not isinstance(k, int) or k < 0:
                raise ValueError(f'unsupported exponent: {ast.unparse(n)}')
            return f'(.pow {to_E(n.left)} {k})'
        ops = {ast.Add: 'add', ast.Sub: 'sub', ast.Mult: 'mul', ast.Div: 'div'}
        if type(n.op) not in ops:
            raise ValueError(f'unsupported operator: {ast.unparse(n)}')
        return f'(.{ops[type(n.op)]} {to_E(n.left)} {to_E(n.right)})'
    if isinstance(n, ast.UnaryOp) and isinstance(n.op, ast.USub):
        return f'(.neg {to_E(n.operand)})'
    if isinstance(n, ast.Constant) and isinstance(n.value, int) and not isinstance(n.value, bool):
        return f'(.k {n.value})'
    if isinstance(n, ast.Call) and ast.unparse(n.func) in ('math.log', 'np.log') and len(n.args) == 1:
        return f'(.log {to_E(n.args[0])})'
    if isinstance(n, ast.Attribute) and ast.unparse(n) in ('np.pi', 'math.pi'):
        return '.pi'
    return f'(.v {lstr(_leaf_name(n))})'


def _mask_names(v, what):
    """`x.nodes[a | b | c].node_id.values` -> ['a', 'b', 'c'] (all combined with `|`)"""
    sub = _one([n for n in ast.walk(v) if isinstance(n, ast.Subscript)], what)
    ops = {type(n.op) for n in ast.walk(sub.slice) if isinstance(n, ast.BinOp)}
    if ops - {ast.BitOr}:
        raise ValueError(f'{what}: masks are not combined with `|` only')
    return sorted(n.id for n in ast.walk(sub.slice) if isinstance(n, ast.Name))


def _fork_rule(fn, col):
    """the `x.nodes.loc[is_bp, col] = max_flow.loc[bp].values` blocks of `fn` -> list of fact tuples"""
    out = []
    for a in ast.walk(fn):
        if not (isinstance(a, ast.Assign) and isinstance(a.targets[0], ast.Subscript) and ast.unparse(a.targets[0].value).endswith('nodes.loc')):
            continue
        sl = a.targets[0].slice
        if not (isinstance(sl, ast.Tuple) and len(sl.elts) == 2 and _const(sl.elts[1]) == col and isinstance(sl.elts[0], ast.Name)):
            continue
        mask = sl.elts[0].id
        v = a.value
        if not (isinstance(v, ast.Attribute) and v.attr == 'values'):
            raise ValueError(f'{fn.name}: fork rule does not assign `.values`')
        src = v.value
        lookup = 'positional'
        if isinstance(src, ast.Subscript) and isinstance(src.value, ast.Attribute) and src.value.attr == 'loc':
            lookup = 'loc[' + ast.unparse(src.slice) + ']'
            src = src.value.value
        if not isinstance(src, ast.Name):
            raise ValueError(f'{fn.name}: fork rule source not recognised')
        # definition of the source: <tbl>.groupby(<key>).<col>.<agg>() ; several textual copies may exist, take the one before the assignment
        defs = [d for d in _assigns(fn, src.id) if d.lineno < a.lineno]
        d = max(defs, key=lambda d: d.lineno).value
        if not (isinstance(d, ast.Call) and isinstance(d.func, ast.Attribute) and isinstance(d.func.value, ast.Attribute)
                and isinstance(d.func.value.value, ast.Call) and ast.unparse(d.func.value.value.func).endswith('.groupby')):
            raise ValueError(f'{fn.name}: `{src.id}` is not <table>.groupby(key).<column>.<agg>()')
        agg, aggcol = d.func.attr, d.func.value.attr
        key = _const(d.func.value.value.args[0])
        tbl = ast.unparse(d.func.value.value.func.value)
        # mask = x.nodes["type"] == "branch" ; bp = x.nodes.loc[mask, "node_id"].values ; tbl = x.nodes[x.nodes.parent_id.isin(bp)]
        mdef = max([m for m in _assigns(fn, mask) if m.lineno < a.lineno], key=lambda m: m.lineno).value
        if not (isinstance(mdef, ast.Compare) and len(mdef.ops) == 1):
            raise ValueError(f'{fn.name}: `{mask}` is not a single comparison')
        tdef = max([m for m in _assigns(fn, tbl) if m.lineno < a.lineno], key=lambda m: m.lineno).value
        isin = _one([c for c in _calls(tdef, 'isin')], f'{fn.name}: `{tbl}` filter')
        idsname = ast.unparse(isin.args[0])
        iddef = max([m for m in _assigns(fn, idsname) if m.lineno < a.lineno], key=lambda m: m.lineno).value
        out.append(dict(maskCmp=_op(mdef.ops[0]), maskCol=_const(mdef.left.slice) if isinstance(mdef.left, ast.Subscript) else ast.unparse(mdef.left).split('.')[-1],
                        maskVal=_const(mdef.comparators[0]), childCol=isin.func.value.attr, key=key, aggCol=aggcol, agg=agg,
                        lookup=lookup.replace(idsname, 'BP'), idsFromMask=(mask in ast.unparse(iddef) and 'node_id' in ast.unparse(iddef)),
                        assignsBeforeCast=True))
    if not out:
        raise ValueError(f'{fn.name}: no fork-rule assignment to column {col!r} found')
    return out


def _propagation(fn, what):
    """`flow[s[0]] = flow.get(s[0], 0)` and `flow[s[i]] = flow[s[i - 1]]` inside `for s in x.small_segments`"""
    res = []
    for loop in ast.walk(fn):
        if isinstance(loop, ast.For) and ast.unparse(loop.iter).endswith('small_segments'):
            seed = [a for a in ast.walk(loop) if isinstance(a, ast.Assign) and isinstance(a.value, ast.Call)
                    and isinstance(a.value.func, ast.Attribute) and a.value.func.attr == 'get' and isinstance(a.targets[0], ast.Subscript)]
            step = [a for a in ast.walk(loop) if isinstance(a, ast.Assign) and isinstance(a.targets[0], ast.Subscript)
                    and isinstance(a.value, ast.Subscript) and isinstance(a.value.slice, ast.Subscript) and isinstance(a.value.slice.slice, ast.BinOp)]
            if seed and step:
                sd, st = seed[0], step[0]
                off = st.value.slice.slice
                rng = _one(_calls(loop, 'range'), f'{what}: range() of the propagation loop')
                guard = [c for c in ast.walk(loop) if isinstance(c, ast.Compare) and isinstance(c.ops[0], ast.NotIn)]
                res.append(dict(seedIndex=_const(sd.targets[0].slice.slice), seedDefault=_const(sd.value.args[1]),
                                stepOp=_op(off.op), stepK=_const(off.right), rangeFrom=_const(rng.args[0]), onlyIfMissing=len(guard) == 1))
    return _one(res, f'{what}: segment propagation loop')


def _geodesic(fn, what):
    g = _one(_calls(fn, 'geodesic_matrix'), f'{what}: geodesic_matrix call')
    c = _one([n for n in ast.walk(fn) if isinstance(n, ast.Compare) and len(n.ops) == 1 and 'inf' in ast.unparse(n.comparators[0])
              and 'dists' in ast.unparse(n.left)], f'{what}: `dists[...] < np.inf`')
    return dict(directed=ast.unparse(_kw(g, 'directed')), weight=ast.unparse(_kw(g, 'weight')), cmp=_op(c.ops[0]))


def _cn_labels(fn, what):
    """`if any(np.isin(["pre","post"], cn_types)): pre, post = "pre", "post" elif any(np.isin([0, 1], …)): pre, post = 0, 1`"""
    out = []
    for n in ast.walk(fn):
        if isinstance(n, ast.If) and isinstance(n.test, ast.Call) and isinstance(n.test.func, ast.Name) and n.test.func.id in ('any', 'all') \
                and _calls(n.test, 'isin'):
            lab = ast.literal_eval(_calls(n.test, 'isin')[0].args[0])
            asg = [a for a in n.body if isinstance(a, ast.Assign) and ast.unparse(a.targets[0]) in ('pre, post', '(pre, post)')]
            if asg:
                out.append((n.test.func.id, list(map(str, lab)), [str(v) for v in ast.literal_eval(asg[0].value)]))
    if len(out) != 2:
        raise ValueError(f'{what}: connector label detection not found in the expected shape')
    return out


# ------------------------------------------------------------------------------------------------ strahler_index
def strahler_facts(tree):
    F = {}
    fn = _func(tree, 'strahler_index')
    F['defaults'] = _defaults(fn)
    F['decorators'] = _decorators(fn)
    chk = _one([n for n in ast.walk(fn) if isinstance(n, ast.If) and isinstance(n.test, ast.Compare) and ast.unparse(n.test.left) == 'method'
                and isinstance(n.test.ops[0], ast.NotIn)], 'strahler_index: method check')
    F['methods'] = list(ast.literal_eval(chk.test.comparators[0]))
    fc = _one(_calls(fn, 'strahler_index'), 'strahler_index: navis-fastcore call')
    F['fcArgs'] = [ast.unparse(a).split('.', 1)[-1] for a in fc.args] + sorted(f'{k.arg}={ast.unparse(k.value)}' for k in fc.keywords)
    # the if/elif chain that assigns this_branch_index
    chain = None
    for n in ast.walk(fn):
        if isinstance(n, ast.If) and any(ast.unparse(t) == 'this_branch_index' for a in n.body if isinstance(a, ast.Assign) for t in a.targets):
            chain = n
            break
    if chain is None:
        raise ValueError('strahler_index: rule chain not found')
    rows = []
    node = chain
    while True:
        val = _one([a for a in node.body if isinstance(a, ast.Assign) and ast.unparse(a.targets[0]) == 'this_branch_index'], 'strahler_index: rule branch').value
        rows.append((node.test, val))
        if len(node.orelse) == 1 and isinstance(node.orelse[0], ast.If):
            node = node.orelse[0]
        else:
            rows.append((None, _one([a for a in node.orelse if isinstance(a, ast.Assign)], 'strahler_index: rule else').value))
            break
    if len(rows) != 6:
        raise ValueError(f'strahler_index: expected 6 rule branches, found {len(rows)}')
    (t0, v0), (t1, v1), (t2, v2), (t3, v3), (t4, v4), (_, v5) = rows
    prev = 'previous_indices'
    if not (isinstance(t0, ast.Compare) and isinstance(t0.ops[0], ast.In) and ast.unparse(t0.comparators[0]) == 'to_ignore'):
        raise ValueError('strahler_index: first rule branch is not `this_node in to_ignore`')
    F['ignoredValue'] = _const(v0)
    if ast.unparse(t1) != f'not len({prev})':
        raise ValueError('strahler_index: second rule branch is not `not len(previous_indices)`')
    F['leafValue'] = _const(v1)
    if not (isinstance(t2, ast.Compare) and ast.unparse(t2.left) == f'len({prev})'):
        raise ValueError('strahler_index: third rule branch is not a test of len(previous_indices)')
    F['singleCmp'], F['singleK'], F['singleIndex'] = _op(t2.ops[0]), _const(t2.comparators[0]), _const(v2.slice) if isinstance(v2, ast.Subscript) else None
    if not (isinstance(t3, ast.Compare) and ast.unparse(t3.left) == 'method' and isinstance(t3.ops[0], ast.Eq)):
        raise ValueError('strahler_index: fourth rule branch is not `method == …`')
    F['greedyLiteral'] = _const(t3.comparators[0])
    F['greedyAgg'] = v3.func.id if isinstance(v3, ast.Call) and isinstance(v3.func, ast.Name) and ast.unparse(v3.args[0]) == prev else '?'
    if not (isinstance(t4, ast.Compare) and isinstance(t4.left, ast.Call) and ast.unparse(t4.left.func) == f'{prev}.count'):
        raise ValueError('strahler_index: fifth rule branch is not `previous_indices.count(…) <cmp> k`')
    inner = t4.left.args[0]
    F['countOf'] = inner.func.id if isinstance(inner, ast.Call) and isinstance(inner.func, ast.Name) and ast.unparse(inner.args[0]) == prev else '?'
    F['countCmp'], F['countK'] = _op(t4.ops[0]), _const(t4.comparators[0])
    if not (isinstance(v4, ast.BinOp) and isinstance(v4.left, ast.Call) and isinstance(v4.left.func, ast.Name)):
        raise ValueError('strahler_index: tie branch is not `<agg>(previous_indices) <op> k`')
    F['tieAgg'], F['tieOp'], F['tieK'] = v4.left.func.id, _op(v4.op), _const(v4.right)
    F['elseAgg'] = v5.func.id if isinstance(v5, ast.Call) and isinstance(v5.func, ast.Name) and ast.unparse(v5.args[0]) == prev else '?'
    # forking roots
    fr = _one([c for c in ast.walk(fn) if isinstance(c, ast.Compare) and 'list_of_childs.get' in ast.unparse(c.left) and ast.unparse(c.left).startswith('len(')],
              'strahler_index: forking-root test')
    F['rootForkCmp'], F['rootForkK'] = _op(fr.ops[0]), _const(fr.comparators[0])
    # the walk
    wl = _one([w for w in ast.walk(fn) if isinstance(w, ast.While) and 'parent_node' in ast.unparse(w.test)], 'strahler_index: walk loop')
    F['walkWhile'] = sorted(ast.unparse(v) for v in (wl.test.values if isinstance(wl.test, ast.BoolOp) and isinstance(wl.test.op, ast.And) else [wl.test]))
    # min_twig_size
    mt = _one([c for c in ast.walk(fn) if isinstance(c, ast.Compare) and ast.unparse(c.comparators[0]) == 'min_twig_size' and len(c.ops) == 1],
              'strahler_index: min_twig_size comparison')
    F['twigCmp'], F['twigLeft'] = _op(mt.ops[0]), ast.unparse(mt.left)
    tw = _one([c for c in ast.walk(fn) if isinstance(c, ast.Compare) and isinstance(c.ops[0], ast.In) and ast.unparse(c.comparators[0]) == 'end_nodes'
               and isinstance(c.left, ast.Subscript)], 'strahler_index: `seg[i] in end_nodes`')
    F['twigLeafIndex'] = _const(tw.left.slice)
    # fix-up
    fx = _one([a for a in _assigns(fn, 'this_SI')], 'strahler_index: fix-up value')
    g = fx.value
    if not (isinstance(g, ast.Call) and ast.unparse(g.func) == 'SI.get' and isinstance(g.args[0], ast.Subscript)):
        raise ValueError('strahler_index: fix-up is not SI.get(this_seg[i], d)')
    F['fixIndex'], F['fixDefault'] = _const(g.args[0].slice), _const(g.args[1])
    sel = _one([c for c in ast.walk(fn) if isinstance(c, ast.Compare) and ast.unparse(c.comparators[0]) == 'tn' and isinstance(c.left, ast.Subscript)],
               'strahler_index: fix-up segment selection')
    F['fixSegIndex'], F['fixSegCmp'] = _const(sel.left.slice), _op(sel.ops[0])
    lam = _one([c for c in _calls(fn, 'get') if ast.unparse(c.func) == 'SI.get' and isinstance(c.args[0], ast.Name)], 'strahler_index: default for unreached nodes')
    F['unreachedDefault'] = _const(lam.args[1])
    return F


# ------------------------------------------------------------------------------------------------ flows
def sfc_facts(tree):
    F = {}
    fn = _func(tree, 'synapse_flow_centrality')
    F['defaults'] = _defaults(fn)
    F['decorators'] = _decorators(fn)
    chk = _one([n for n in ast.walk(fn) if isinstance(n, ast.If) and isinstance(n.test, ast.Compare) and ast.unparse(n.test.left) == 'mode'
                and isinstance(n.test.ops[0], ast.NotIn)], 'synapse_flow_centrality: mode check')
    F['modes'] = list(ast.literal_eval(chk.test.comparators[0]))
    F['labels'] = _cn_labels(fn, 'synapse_flow_centrality')
    fc = _one(_calls(fn, 'synapse_flow_centrality'), 'synapse_flow_centrality: navis-fastcore call')

    def which(arg):
        v = _kw(fc, arg)
        c = _one([c for c in ast.walk(v) if isinstance(c, ast.Compare) and ast.unparse(c.left).endswith('connectors.type')], f'fastcore {arg}= filter')
        agg = 'value_counts' if _calls(v, 'value_counts') else '?'
        fill = _const(_one(_calls(v, 'fillna'), f'fastcore {arg}= fillna').args[0])
        return ast.unparse(c.comparators[0]), agg, fill, 'node_id.map' in ast.unparse(v)
    F['fcPre'], F['fcPost'] = which('presynapses'), which('postsynapses')
    F['fcMode'] = ast.unparse(_kw(fc, 'mode'))
    F['fcIds'] = [ast.unparse(_kw(fc, 'node_ids')).split('.', 1)[-1], ast.unparse(_kw(fc, 'parent_ids')).split('.', 1)[-1]]
    F['forkRules'] = _fork_rule(fn, 'synapse_flow_centrality')
    # formulas of the Python path
    def dictcomp(name):
        d = _one([a for a in _assigns(fn, name) if isinstance(a.value, ast.DictComp)], f'synapse_flow_centrality: {name} formula')
        return d.value
    cf, cp = dictcomp('centrifugal'), dictcomp('centripetal')
    F['centrifugalE'], F['centripetalE'] = to_E(cf.value), to_E(cp.value)
    F['formulaOver'] = _same([ast.unparse(cf.generators[0].iter), ast.unparse(cp.generators[0].iter)], 'formula domain')
    sm = _one([a for a in _assigns(fn, 'flow') if isinstance(a.value, ast.DictComp)], 'synapse_flow_centrality: sum formula')
    F['sumE'] = to_E(sm.value.value)
    sel = {}
    for n in ast.walk(fn):
        if isinstance(n, ast.If) and isinstance(n.test, ast.Compare) and ast.unparse(n.test.left) == 'mode' and isinstance(n.test.ops[0], ast.Eq):
            for a in n.body:
                if isinstance(a, ast.Assign) and ast.unparse(a.targets[0]) == 'flow':
                    sel[_const(n.test.comparators[0])] = 'sum' if isinstance(a.value, ast.DictComp) else ast.unparse(a.value)
    F['select'] = sorted(sel.items())
    guards = {}
    for n in ast.walk(fn):
        if isinstance(n, ast.If) and isinstance(n.test, ast.Compare) and ast.unparse(n.test.left) == 'mode' and isinstance(n.test.ops[0], ast.NotEq):
            for a in n.body:
                if isinstance(a, ast.Assign) and isinstance(a.value, ast.DictComp):
                    guards[ast.unparse(a.targets[0])] = _const(n.test.comparators[0])
    F['computedUnlessMode'] = sorted(guards.items())
    calc = _one(_assigns(fn, 'calc_node_ids'), 'synapse_flow_centrality: calc_node_ids')
    F['calcMasks'] = _mask_names(calc.value, 'synapse_flow_centrality: calc_node_ids')
    tot = {}
    for name in ('total_pre', 'total_post'):
        d = _one([a for a in _assigns(fn, name) if isinstance(a.value, ast.DictComp)], f'synapse_flow_centrality: {name}')
        g = d.value.value
        tot[name] = (ast.unparse(g.func.value), ast.unparse(g.args[0]), _const(g.args[1]))
    F['totals'] = sorted(tot.items())
    F['geodesic'] = _geodesic(fn, 'synapse_flow_centrality')
    F['propagation'] = _propagation(fn, 'synapse_flow_centrality')
    F['setsMethod'] = len([a for a in ast.walk(fn) if isinstance(a, ast.Assign) and ast.unparse(a.targets[0]) == 'x.centrality_method' and ast.unparse(a.value) == 'mode'])
    return F


def fc_facts(tree):
    F = {}
    fn = _func(tree, 'flow_centrality')
    F['decorators'] = _decorators(fn)
    F['leafs'] = ast.unparse(_one(_assigns(fn, 'leafs'), 'flow_centrality: leafs').value)
    calc = _one(_assigns(fn, 'calc_node_ids'), 'flow_centrality: calc_node_ids')
    types = []
    for m in _mask_names(calc.value, 'flow_centrality: calc_node_ids'):
        # each mask is `x.nodes["type"] == "<literal>"` (the definition in force where calc_node_ids is built)
        d = max([a for a in _assigns(fn, m) if a.lineno < calc.lineno], key=lambda a: a.lineno, default=None)
        if d is None or not (isinstance(d.value, ast.Compare) and len(d.value.ops) == 1 and isinstance(d.value.ops[0], ast.Eq)
                             and 'type' in ast.unparse(d.value.left) and isinstance(_const(d.value.comparators[0]), str)):
            raise ValueError(f'flow_centrality: mask `{m}` is not `x.nodes["type"] == <literal>`')
        types.append(_const(d.value.comparators[0]))
    F['calcTypes'] = sorted(types)
    d = _one([a for a in _assigns(fn, 'flow') if isinstance(a.value, ast.DictComp)], 'flow_centrality: formula')
    F['formulaE'] = to_E(d.value.value)
    F['formulaOver'] = ast.unparse(d.value.generators[0].iter)
    ds = _one(_assigns(fn, 'distal'), 'flow_centrality: distal')
    F['distalSumAxis'] = ast.unparse(_kw(_one(_calls(ds.value, 'sum'), 'flow_centrality: distal sum'), 'axis'))
    g = _one([n for n in ast.walk(fn) if isinstance(n, ast.If) and ast.unparse(n.test) == 'not total_leafs'], 'flow_centrality: empty guard')
    F['emptyValue'] = _const(_one([a for a in g.body if isinstance(a, ast.Assign)], 'flow_centrality: empty assignment').value)
    F['forkRules'] = _fork_rule(fn, 'flow_centrality')
    F['geodesic'] = _geodesic(fn, 'flow_centrality')
    F['propagation'] = _propagation(fn, 'flow_centrality')
    return F


def bend_facts(tree):
    F = {}
    fn = _func(tree, 'bending_flow')
    F['decorators'] = _decorators(fn)
    F['labels'] = _cn_labels(fn, 'bending_flow')
    dg = _one([c for c in ast.walk(fn) if isinstance(c, ast.Compare) and _calls(c.left, 'degree')], 'bending_flow: degree(root) test')
    F['rootCmp'], F['rootK'] = _op(dg.ops[0]), _const(dg.comparators[0])
    bp = _one(_assigns(fn, 'bp_node_ids'), 'bending_flow: bp_node_ids')
    c = _one([c for c in ast.walk(bp.value) if isinstance(c, ast.Compare)], 'bending_flow: branch filter')
    F['bpCmp'], F['bpVal'] = _op(c.ops[0]), _const(c.comparators[0])
    ch = _one(_assigns(fn, 'bp_childs'), 'bending_flow: bp_childs')
    F['childsVia'] = 'in_edges' if _calls(ch.value, 'in_edges') else '?'
    F['childEnd'] = _const(_one([s for s in ast.walk(ch.value) if isinstance(s, ast.Subscript) and isinstance(s.value, ast.Name) and _const(s.slice) is not None],
                                'bending_flow: edge end').slice)
    loop = _one([l for l in ast.walk(fn) if isinstance(l, ast.For) and _calls(l.iter, 'permutations')], 'bending_flow: permutations loop')
    pm = _calls(loop.iter, 'permutations')[0]
    F['pairs'] = ('permutations', _const(_kw(pm, 'r')) if _kw(pm, 'r') is not None else _const(pm.args[1]))
    names = [e.id for e in loop.target.elts]
    aug = _one([a for a in ast.walk(loop) if isinstance(a, ast.AugAssign)], 'bending_flow: accumulation')
    if not (isinstance(aug.op, ast.Add) and isinstance(aug.value, ast.BinOp) and isinstance(aug.value.op, ast.Mult)):
        raise ValueError('bending_flow: accumulation is not `+= a * b`')
    def fac(n):
        return (_leaf_name(n), names.index(n.slice.id))
    F['factors'] = [fac(aug.value.left), fac(aug.value.right)]
    F['geodesic'] = _geodesic(fn, 'bending_flow')
    F['preserve'] = ast.unparse(_kw(_one(_calls(fn, 'downsample'), 'bending_flow: downsample'), 'preserve_nodes'))
    seg = _one([l for l in ast.walk(fn) if isinstance(l, ast.For) and ast.unparse(l.iter).endswith('small_segments')], 'bending_flow: segment loop')
    tf = _one(_assigns(seg, 'this_flow'), 'bending_flow: this_flow').value
    F['inheritIndex'], F['inheritDefault'] = _const(tf.args[0].slice), _const(tf.args[1])
    drop = _one([i for i in ast.walk(seg) if isinstance(i, ast.If) and isinstance(i.test, ast.Compare) and isinstance(i.test.ops[0], ast.In)], 'bending_flow: drop-first test')
    F['dropIfIndex'] = _const(drop.test.left.slice)
    F['dropSlice'] = ast.unparse(_one([a for a in drop.body if isinstance(a, ast.Assign)], 'bending_flow: drop-first').value)
    fin = _one([a for a in ast.walk(fn) if isinstance(a, ast.Assign) and ast.unparse(a.targets[0]) == "x.nodes['bending_flow']"], 'bending_flow: final column')
    F['fillna'] = _const(_one(_calls(fin.value, 'fillna'), 'bending_flow: fillna').args[0])
    return F


# ------------------------------------------------------------------------------------------------ segregation index
def seg_facts(tree):
    F = {}
    fn = _func(tree, 'segregation_index')
    F['decorators'] = _decorators(fn)
    ps = [a for a in _assigns(fn, 'p') if isinstance(a.value, ast.BinOp)]
    F['pE'] = to_E(_one(ps, 'segregation_index: p').value)
    F['pnormE'] = to_E(_one(_assigns(fn, 'p_norm'), 'segregation_index: p_norm').value)
    F['totSynE'] = to_E(_one([a for a in ast.walk(fn) if isinstance(a, ast.Assign) and ast.unparse(a.targets[0]) == "n['total_syn']"], 'segregation_index: n[total_syn]').value)
    F['totalSynE'] = to_E(_one(_assigns(fn, 'total_syn'), 'segregation_index: total_syn').value)
    guards = [c for c in ast.walk(fn) if isinstance(c, ast.Compare) and len(c.ops) == 2 and ast.unparse(c.comparators[0]) in ('p', 'p_norm')]
    if len(guards) != 2:
        raise ValueError('segregation_index: the two `lo < p < hi` guards were not found')
    F['guard'] = _same([(_const(g.left), _op(g.ops[0]), _op(g.ops[1]), _const(g.comparators[1])) for g in guards], 'segregation_index: guards')
    ent = [a for a in ast.walk(fn) if isinstance(a, ast.Assign) and ast.unparse(a.targets[0]) in ('S', 'S_norm') and _calls(a.value, 'log')]
    if len(ent) != 2:
        raise ValueError('segregation_index: the two entropy expressions were not found')
    es = {ast.unparse(a.targets[0]): to_E(a.value) for a in ent}
    F['entropyE'] = es['S']
    F['entropyNormE'] = es['S_norm'].replace('"p_norm"', '"p"')
    F['elseEntropy'] = _same([_const(a.value) for a in _assigns(fn, 'S') if _const(a.value) is not None], 'segregation_index: guarded-out entropy')
    F['noSynP'] = ast.unparse(_one([a for a in _assigns(fn, 'p') if not isinstance(a.value, ast.BinOp)], 'segregation_index: p without synapses').value)
    mean = _one([a for a in _assigns(fn, 'S') if _calls(a.value, 'sum')], 'segregation_index: mean entropy')
    m = mean.value
    if not (isinstance(m, ast.BinOp) and isinstance(m.op, ast.Mult) and isinstance(m.left, ast.BinOp) and isinstance(m.left.op, ast.Div)):
        raise ValueError('segregation_index: mean entropy is not `1 / total * sum(…)`')
    F['meanScaleE'] = to_E(m.left)
    term = _calls(m.right, 'sum')[0].args[0]
    elt = term.elt if isinstance(term, (ast.ListComp, ast.GeneratorExp)) else None
    F['meanTermE'] = to_E(elt) if elt is not None else '?'
    F['hE'] = to_E(_one([a for a in _assigns(fn, 'H') if isinstance(a.value, ast.BinOp)], 'segregation_index: H').value)
    F['elseH'] = _one([_const(a.value) for a in _assigns(fn, 'H') if _const(a.value) is not None], 'segregation_index: H fall-back')
    ln = _one([c for c in ast.walk(fn) if isinstance(c, ast.Compare) and ast.unparse(c.left) == 'len(x)'], 'segregation_index: len(x) check')
    F['listCmp'], F['listK'] = _op(ln.ops[0]), _const(ln.comparators[0])
    rec = _one([d for d in ast.walk(fn) if isinstance(d, ast.Dict) and len(d.keys) == 2 and all(isinstance(k, ast.Constant) for k in d.keys)], 'segregation_index: record')
    F['record'] = sorted((k.value, ast.unparse(v).split('.')[-1]) for k, v in zip(rec.keys, rec.values))

    ar = _func(tree, 'arbor_segregation_index')
    F['arborDecorators'] = _decorators(ar)
    F['arborLabels'] = _cn_labels(ar, 'arbor_segregation_index')
    lst = _one(_assigns(ar, 'n_syn'), 'arbor_segregation_index: n_syn').value
    F['arborFrags'] = [sorted((k.value, to_E(v)) for k, v in zip(d.keys, d.values)) for d in lst.elts]
    bp = _one(_assigns(ar, 'is_bp'), 'arbor_segregation_index: is_bp').value
    F['arborBpTypes'] = sorted(ast.literal_eval(_one(_calls(bp, 'isin'), 'arbor: is_bp isin').args[0]))
    calc = _one(_assigns(ar, 'calc_node_ids'), 'arbor_segregation_index: calc_node_ids')
    F['arborCalcMasks'] = _mask_names(calc.value, 'arbor_segregation_index: calc_node_ids')
    F['arborGeodesic'] = _geodesic(ar, 'arbor_segregation_index')
    seg = _one([l for l in ast.walk(ar) if isinstance(l, ast.For) and ast.unparse(l.iter).endswith('small_segments')], 'arbor: segment loop')
    ts = _one(_assigns(seg, 'this_SI'), 'arbor: this_SI').value
    F['arborInheritIndex'] = _const(ts.slice.slice) if isinstance(ts.slice, ast.Subscript) else None
    upd = _one(_calls(seg, 'update'), 'arbor: SI.update')
    F['arborInheritTo'] = ast.unparse(upd.args[0].generators[0].iter)
    ln = _one([c for c in ast.walk(seg) if isinstance(c, ast.Compare) and ast.unparse(c.left) == 'len(s)'], 'arbor: len(s) test')
    F['arborShortCmp'], F['arborShortK'] = _op(ln.ops[0]), _const(ln.comparators[0])
    return F


# ------------------------------------------------------------------------------------------------ tortuosity, segment_analysis
def geom_facts(tree):
    F = {}
    ts = _func(tree, '_tortuosity_simple')
    F['tortE'] = to_E(_one(_assigns(ts, 'T'), '_tortuosity_simple: T').value)
    r = _one(_assigns(ts, 'R'), '_tortuosity_simple: R').value
    ends = sorted(_const(s.slice) for s in ast.walk(r) if isinstance(s, ast.Subscript) and ast.unparse(s.value) == 'coords')
    F['tortChordEnds'] = ends
    F['tortArc'] = sorted(c for c in ('diff', 'norm', 'sum') if _calls(_one(_assigns(ts, 'L'), '_tortuosity_simple: L').value, c))
    ret = _one([n for n in ast.walk(ts) if isinstance(n, ast.Return)], '_tortuosity_simple: return')
    F['tortAggregate'] = ret.value.func.attr if isinstance(ret.value, ast.Call) and isinstance(ret.value.func, ast.Attribute) else '?'
    F['tortOver'] = ast.unparse(_one([l for l in ast.walk(ts) if isinstance(l, ast.For)], '_tortuosity_simple: loop').iter).split('(')[-1].rstrip(')')
    t = _func(tree, 'tortuosity')
    disp = _one([n for n in ast.walk(t) if isinstance(n, ast.If) and ast.unparse(n.test) == 'seg_length is None'], 'tortuosity: dispatch')
    F['tortDispatch'] = [ast.unparse(disp.body[0].value.func), ast.unparse(disp.orelse[0].value.func)]
    F['tortDefaults'] = _defaults(t)

    sa = _func(tree, 'segment_analysis')
    F['saDecorators'] = _decorators(sa)
    F['saSegs'] = ast.unparse(_one(_assigns(sa, 'segs'), 'segment_analysis: segs').value.func).split('.')[-1]

    def end_index(name):
        a = _one(_assigns(sa, name), f'segment_analysis: {name}')
        idx = [_const(s.slice) for s in ast.walk(a.value) if isinstance(s, ast.Subscript) and isinstance(s.value, ast.Name) and s.value.id == 's' and _const(s.slice) is not None]
        return _one(idx, f'segment_analysis: {name} segment end')
    F['saSiIndex'], F['saStartIndex'], F['saEndIndex'], F['saRootDistIndex'] = end_index('SI'), end_index('start'), end_index('end'), end_index('root_dists')
    si = _one(_assigns(sa, 'SI'), 'segment_analysis: SI').value
    F['saSiColumn'] = _one([_const(e) for s in ast.walk(si) if isinstance(s, ast.Subscript) and isinstance(s.slice, ast.Tuple) for e in s.slice.elts if _const(e) is not None], 'SI column')
    F['saSiById'] = '.loc[' in ast.unparse(si) and 'set_index' in ast.unparse(_one(_assigns(sa, 'nodes'), 'segment_analysis: nodes').value)
    F['saTortE'] = to_E(_one(_assigns(sa, 'tort'), 'segment_analysis: tort').value)
    F['saLengthFn'] = ast.unparse(_one(_calls(_one(_assigns(sa, 'seg_lengths'), 'segment_analysis: seg_lengths').value, 'segment_length'), 'segment_length call').func).split('.')[-1]
    rd = _one(_calls(sa, 'dist_to_root'), 'segment_analysis: dist_to_root')
    F['saRootDistWeight'] = ast.unparse(_kw(rd, 'weight'))
    F['saVolE'] = to_E(_one(_assigns(sa, 'vols'), 'segment_analysis: vols').value)
    r2 = _one(_assigns(sa, 'r2'), 'segment_analysis: r2').value
    F['saR2From'] = 'parent_id' if 'parent_id.map' in ast.unparse(r2) else '?'
    F['saR2Fill'] = _const(_one(_calls(r2, 'fillna'), 'segment_analysis: r2 fillna').args[0])
    r1 = _one(_assigns(sa, 'r1'), 'segment_analysis: r1').value
    F['saR1From'] = 'index' if 'index.map' in ast.unparse(r1) else '?'
    h = _one(_calls(_one(_assigns(sa, 'h'), 'segment_analysis: h').value, 'parent_dist'), 'segment_analysis: parent_dist')
    F['saHRootDist'] = _const(_kw(h, 'root_dist'))
    vol = _one([a for a in ast.walk(sa) if isinstance(a, ast.Assign) and ast.unparse(a.targets[0]) == "res['volume']"], 'segment_analysis: volume column').value
    F['saVolAgg'] = ast.unparse(vol.elt.func).split('.')[-1]
    F['saVolOver'] = ast.unparse(vol.elt.args[0].generators[0].iter)
    F['saVolDefault'] = _const(vol.elt.args[0].elt.args[1])
    stats = {}
    for col in ('radius_mean', 'radius_min', 'radius_max'):
        v = _one([a for a in ast.walk(sa) if isinstance(a, ast.Assign) and ast.unparse(a.targets[0]) == f"res['{col}']"], f'segment_analysis: {col}').value
        stats[col] = ast.unparse(v.elt.func).split('.')[-1]
    F['saRadStats'] = sorted(stats.items())
    sr = _one(_assigns(sa, 'seg_radii'), 'segment_analysis: seg_radii').value
    F['saRadOver'] = ast.unparse(sr.elt.generators[0].iter)
    # the pandas-3 defect: a store through `.values[...]` / into an array obtained from `.values`
    vals_names = {ast.unparse(a.targets[0]) for a in ast.walk(sa) if isinstance(a, ast.Assign) and isinstance(a.value, ast.Attribute) and a.value.attr == 'values'}
    stores = [a for a in ast.walk(sa) if isinstance(a, (ast.Assign, ast.AugAssign)) for tg in (a.targets if isinstance(a, ast.Assign) else [a.target])
              if isinstance(tg, ast.Subscript) and (ast.unparse(tg.value) in vals_names or ast.unparse(tg.value).endswith('.values'))]
    F['saStoresThroughValues'] = len(stores)
    F['saColumns'] = [ast.literal_eval(a.targets[0].slice) for a in ast.walk(sa) if isinstance(a, ast.Assign) and isinstance(a.targets[0], ast.Subscript)
                      and ast.unparse(a.targets[0].value) == 'res']
    return F


# ------------------------------------------------------------------------------------------------ emit
def lstr(s):
    return '"' + str(s).replace('\\', '\\\\').replace('"', '\\"') + '"'


def lstrs(l):
    return '[' + ', '.join(lstr(x) for x in l) + ']'


def lbool(b):
    return 'true' if b else 'false'


def lint(i):
    i = int(i)
    return f'({i})' if i < 0 else str(i)


def lpairs(d):
    return '[' + ', '.join(f'({lstr(k)}, {lstr(v)})' for k, v in d) + ']'


def ldecos(ds):
    return '[' + ', '.join(f'({lstr(n)}, {lstrs(k)})' for n, k in ds) + ']'


def lfork(r):
    return (f'{{ maskCol := {lstr(r["maskCol"])}, maskCmp := {lstr(r["maskCmp"])}, maskVal := {lstr(r["maskVal"])}, childCol := {lstr(r["childCol"])}, '
            f'key := {lstr(r["key"])}, aggCol := {lstr(r["aggCol"])}, agg := {lstr(r["agg"])}, lookup := {lstr(r["lookup"])}, idsFromMask := {lbool(r["idsFromMask"])} }}')


def lprop(p):
    return (f'{{ seedIndex := {lint(p["seedIndex"])}, seedDefault := {lint(p["seedDefault"])}, stepOp := {lstr(p["stepOp"])}, stepK := {lint(p["stepK"])}, '
            f'rangeFrom := {lint(p["rangeFrom"])}, onlyIfMissing := {lbool(p["onlyIfMissing"])} }}')


def lgeo(g):
    return f'({lstr(g["directed"])}, {lstr(g["weight"])}, {lstr(g["cmp"])})'


def llabels(ls):
    return '[' + ', '.join(f'({lstr(q)}, {lstrs(a)}, {lstrs(b)})' for q, a, b in ls) + ']'


def generate(repo: Path):
    tree = ast.parse((repo / 'navis' / 'morpho' / 'mmetrics.py').read_text())
    S, C, L_, B, G, M = strahler_facts(tree), sfc_facts(tree), fc_facts(tree), bend_facts(tree), seg_facts(tree), geom_facts(tree)
    o = []
    o.append('/- GENERATED by translator/gen_mmetrics.py from navis/morpho/mmetrics.py.\n'
             '   Do not edit: regenerated from the current source tree on every `./check C17`. -/')
    o.append('import NavisModel.Model.PyExpr')
    o.append('namespace Navis.Gen.Mmetrics\nopen Navis.PyExpr\n')
    o.append('structure ForkRule where\n  maskCol : String\n  maskCmp : String\n  maskVal : String\n  childCol : String\n  key : String\n'
             '  aggCol : String\n  agg : String\n  lookup : String\n  idsFromMask : Bool\nderiving Repr, DecidableEq\n')
    o.append('structure Propagation where\n  seedIndex : Int\n  seedDefault : Int\n  stepOp : String\n  stepK : Int\n  rangeFrom : Int\n'
             '  onlyIfMissing : Bool\nderiving Repr, DecidableEq\n')
    o.append('/-! ### `strahler_index` -/')
    o.append(f'def siDefaults : List (String × String) := {lpairs(sorted(S["defaults"].items()))}')
    o.append(f'def siDecorators : List (String × List String) := {ldecos(S["decorators"])}')
    o.append(f'def siMethods : List String := {lstrs(S["methods"])}')
    o.append('/-- positional and keyword arguments handed to navis-fastcore -/')
    o.append(f'def siFastcoreArgs : List String := {lstrs(S["fcArgs"])}')
    o.append('/-- the rule chain: ignored ↦ v; no children ↦ v; `len(prev) <cmp> k` ↦ `prev[i]`; `method == lit` ↦ `agg(prev)`;\n'
             '    `prev.count(of(prev)) <cmp> k` ↦ `agg(prev) <op> k`; else ↦ `agg(prev)` -/')
    o.append(f'def siIgnoredValue : Nat := {int(S["ignoredValue"])}')
    o.append(f'def siLeafValue : Nat := {int(S["leafValue"])}')
    o.append(f'def siSingleCmp : String := {lstr(S["singleCmp"])}')
    o.append(f'def siSingleK : Int := {lint(S["singleK"])}')
    o.append(f'def siSingleIndex : Int := {lint(S["singleIndex"])}')
    o.append(f'def siGreedyLiteral : String := {lstr(S["greedyLiteral"])}')
    o.append(f'def siGreedyAgg : String := {lstr(S["greedyAgg"])}')
    o.append(f'def siCountOf : String := {lstr(S["countOf"])}')
    o.append(f'def siCountCmp : String := {lstr(S["countCmp"])}')
    o.append(f'def siCountK : Int := {lint(S["countK"])}')
    o.append(f'def siTieAgg : String := {lstr(S["tieAgg"])}')
    o.append(f'def siTieOp : String := {lstr(S["tieOp"])}')
    o.append(f'def siTieK : Nat := {int(S["tieK"])}')
    o.append(f'def siElseAgg : String := {lstr(S["elseAgg"])}')
    o.append('/-- forking roots: `len(list_of_childs.get(r, [])) <cmp> k` -/')
    o.append(f'def siRootForkCmp : String := {lstr(S["rootForkCmp"])}')
    o.append(f'def siRootForkK : Int := {lint(S["rootForkK"])}')
    o.append(f'def siWalkWhile : List String := {lstrs(S["walkWhile"])}')
    o.append('/-- `<left> <cmp> min_twig_size`, `seg[i] in end_nodes` -/')
    o.append(f'def siTwigLeft : String := {lstr(S["twigLeft"])}')
    o.append(f'def siTwigCmp : String := {lstr(S["twigCmp"])}')
    o.append(f'def siTwigLeafIndex : Int := {lint(S["twigLeafIndex"])}')
    o.append('/-- fix-up: segments with `s[i] == tn` take `SI.get(this_seg[j], d)`; unreached nodes get `SI.get(x, d)` -/')
    o.append(f'def siFixSegIndex : Int := {lint(S["fixSegIndex"])}')
    o.append(f'def siFixSegCmp : String := {lstr(S["fixSegCmp"])}')
    o.append(f'def siFixIndex : Int := {lint(S["fixIndex"])}')
    o.append(f'def siFixDefault : Nat := {int(S["fixDefault"])}')
    o.append(f'def siUnreachedDefault : Nat := {int(S["unreachedDefault"])}\n')
    o.append('/-! ### `synapse_flow_centrality` -/')
    o.append(f'def sfcDefaults : List (String × String) := {lpairs(sorted(C["defaults"].items()))}')
    o.append(f'def sfcDecorators : List (String × List String) := {ldecos(C["decorators"])}')
    o.append(f'def sfcModes : List String := {lstrs(C["modes"])}')
    o.append('/-- connector label detection: (quantifier, labels tested, (pre, post) chosen) -/')
    o.append(f'def sfcLabels : List (String × List String × List String) := {llabels(C["labels"])}')
    o.append('/-- navis-fastcore: `presynapses=` / `postsynapses=` are built from `connectors.type == <label var>` via <agg>, fillna(<k>), mapped by node id -/')
    o.append(f'def sfcFastcorePre : String × String × Int × Bool := ({lstr(C["fcPre"][0])}, {lstr(C["fcPre"][1])}, {lint(C["fcPre"][2])}, {lbool(C["fcPre"][3])})')
    o.append(f'def sfcFastcorePost : String × String × Int × Bool := ({lstr(C["fcPost"][0])}, {lstr(C["fcPost"][1])}, {lint(C["fcPost"][2])}, {lbool(C["fcPost"][3])})')
    o.append(f'def sfcFastcoreMode : String := {lstr(C["fcMode"])}')
    o.append(f'def sfcFastcoreIds : List String := {lstrs(C["fcIds"])}')
    o.append('/-- the fork rule, once per code path (navis-fastcore, Python) -/')
    o.append('def sfcForkRules : List ForkRule := [' + ', '.join(lfork(r) for r in C['forkRules']) + ']')
    o.append(f'def sfcCentrifugalE : E := {C["centrifugalE"]}')
    o.append(f'def sfcCentripetalE : E := {C["centripetalE"]}')
    o.append(f'def sfcSumE : E := {C["sumE"]}')
    o.append(f'def sfcFormulaOver : String := {lstr(C["formulaOver"])}')
    o.append('/-- `mode == <lit>` ↦ the dictionary used as flow -/')
    o.append(f'def sfcSelect : List (String × String) := {lpairs(C["select"])}')
    o.append('/-- a formula is computed `if mode != <lit>` -/')
    o.append(f'def sfcComputedUnlessMode : List (String × String) := {lpairs(C["computedUnlessMode"])}')
    o.append(f'def sfcCalcMasks : List String := {lstrs(C["calcMasks"])}')
    o.append('/-- totals per connected component: name ↦ (series, key, default) -/')
    o.append('def sfcTotals : List (String × String × String × Int) := [' + ', '.join(f'({lstr(k)}, {lstr(v[0])}, {lstr(v[1])}, {lint(v[2])})' for k, v in C['totals']) + ']')
    o.append('/-- `geodesic_matrix(directed=…, weight=…)`, `dists[…] <cmp> np.inf` -/')
    o.append(f'def sfcGeodesic : String × String × String := {lgeo(C["geodesic"])}')
    o.append(f'def sfcPropagation : Propagation := {lprop(C["propagation"])}')
    o.append(f'def sfcSetsCentralityMethod : Nat := {int(C["setsMethod"])}\n')
    o.append('/-! ### `flow_centrality` -/')
    o.append(f'def fcDecorators : List (String × List String) := {ldecos(L_["decorators"])}')
    o.append(f'def fcLeafs : String := {lstr(L_["leafs"])}')
    o.append('/-- node types at which the formula is evaluated: `calc_node_ids = x.nodes[<type == …> | …].node_id.values` -/')
    o.append(f'def fcCalcTypes : List String := {lstrs(L_["calcTypes"])}')
    o.append(f'def fcFormulaE : E := {L_["formulaE"]}')
    o.append(f'def fcFormulaOver : String := {lstr(L_["formulaOver"])}')
    o.append(f'def fcDistalSumAxis : String := {lstr(L_["distalSumAxis"])}')
    o.append(f'def fcEmptyValue : Int := {lint(L_["emptyValue"])}')
    o.append('def fcForkRules : List ForkRule := [' + ', '.join(lfork(r) for r in L_['forkRules']) + ']')
    o.append(f'def fcGeodesic : String × String × String := {lgeo(L_["geodesic"])}')
    o.append(f'def fcPropagation : Propagation := {lprop(L_["propagation"])}\n')
    o.append('/-! ### `bending_flow` -/')
    o.append(f'def bendDecorators : List (String × List String) := {ldecos(B["decorators"])}')
    o.append(f'def bendLabels : List (String × List String × List String) := {llabels(B["labels"])}')
    o.append('/-- `y.graph.degree(root) <cmp> k` -/')
    o.append(f'def bendRootCmp : String := {lstr(B["rootCmp"])}')
    o.append(f'def bendRootK : Int := {lint(B["rootK"])}')
    o.append(f'def bendBpCmp : String := {lstr(B["bpCmp"])}')
    o.append(f'def bendBpVal : String := {lstr(B["bpVal"])}')
    o.append('/-- children of a branch point: `[e[<i>] for e in y.graph.<via>(t)]` -/')
    o.append(f'def bendChildsVia : String := {lstr(B["childsVia"])}')
    o.append(f'def bendChildEnd : Int := {lint(B["childEnd"])}')
    o.append(f'def bendPairs : String × Int := ({lstr(B["pairs"][0])}, {lint(B["pairs"][1])})')
    o.append('/-- `flow[bp] += <series>[<k-th loop variable>] * <series>[<k-th loop variable>]` -/')
    o.append('def bendFactors : List (String × Nat) := [' + ', '.join(f'({lstr(a)}, {b})' for a, b in B['factors']) + ']')
    o.append(f'def bendGeodesic : String × String × String := {lgeo(B["geodesic"])}')
    o.append(f'def bendPreserve : String := {lstr(B["preserve"])}')
    o.append('/-- segments: `if s[<i>] in flow: s = <slice>`; `this_flow = flow.get(s[<j>], <d>)`; final `.fillna(<k>)` -/')
    o.append(f'def bendDropIfIndex : Int := {lint(B["dropIfIndex"])}')
    o.append(f'def bendDropSlice : String := {lstr(B["dropSlice"])}')
    o.append(f'def bendInheritIndex : Int := {lint(B["inheritIndex"])}')
    o.append(f'def bendInheritDefault : Int := {lint(B["inheritDefault"])}')
    o.append(f'def bendFillna : Int := {lint(B["fillna"])}\n')
    o.append('/-! ### `segregation_index`, `arbor_segregation_index` -/')
    o.append(f'def segDecorators : List (String × List String) := {ldecos(G["decorators"])}')
    o.append(f'def segPE : E := {G["pE"]}')
    o.append(f'def segPnormE : E := {G["pnormE"]}')
    o.append(f'def segFragTotalE : E := {G["totSynE"]}')
    o.append(f'def segTotalE : E := {G["totalSynE"]}')
    g = G['guard']
    o.append('/-- `<lo> <op1> p <op2> <hi>` (both guards) -/')
    o.append(f'def segGuard : Int × String × String × Int := ({lint(g[0])}, {lstr(g[1])}, {lstr(g[2])}, {lint(g[3])})')
    o.append(f'def segEntropyE : E := {G["entropyE"]}')
    o.append('/-- the normalising entropy, with `p_norm` renamed to `p` -/')
    o.append(f'def segEntropyNormE : E := {G["entropyNormE"]}')
    o.append(f'def segElseEntropy : Int := {lint(G["elseEntropy"])}')
    o.append(f'def segNoSynP : String := {lstr(G["noSynP"])}')
    o.append(f'def segMeanScaleE : E := {G["meanScaleE"]}')
    o.append(f'def segMeanTermE : E := {G["meanTermE"]}')
    o.append(f'def segHE : E := {G["hE"]}')
    o.append(f'def segElseH : Int := {lint(G["elseH"])}')
    o.append(f'def segListCmp : String := {lstr(G["listCmp"])}')
    o.append(f'def segListK : Int := {lint(G["listK"])}')
    o.append(f'def segRecord : List (String × String) := {lpairs(G["record"])}')
    o.append(f'def arborDecorators : List (String × List String) := {ldecos(G["arborDecorators"])}')
    o.append(f'def arborLabels : List (String × List String × List String) := {llabels(G["arborLabels"])}')
    o.append('/-- the two fragments of a cut, as records key ↦ expression -/')
    o.append('def arborFrags : List (List (String × E)) := [' + ', '.join('[' + ', '.join(f'({lstr(k)}, {e})' for k, e in fr) + ']' for fr in G['arborFrags']) + ']')
    o.append(f'def arborBpTypes : List String := {lstrs(G["arborBpTypes"])}')
    o.append(f'def arborCalcMasks : List String := {lstrs(G["arborCalcMasks"])}')
    o.append(f'def arborGeodesic : String × String × String := {lgeo(G["arborGeodesic"])}')
    o.append(f'def arborInheritIndex : Int := {lint(G["arborInheritIndex"])}')
    o.append(f'def arborInheritTo : String := {lstr(G["arborInheritTo"])}')
    o.append(f'def arborShortCmp : String := {lstr(G["arborShortCmp"])}')
    o.append(f'def arborShortK : Int := {lint(G["arborShortK"])}\n')
    o.append('/-! ### `tortuosity`, `segment_analysis` -/')
    o.append(f'def tortE : E := {M["tortE"]}')
    o.append(f'def tortChordEnds : List Int := [{", ".join(lint(i) for i in M["tortChordEnds"])}]')
    o.append(f'def tortArc : List String := {lstrs(M["tortArc"])}')
    o.append(f'def tortAggregate : String := {lstr(M["tortAggregate"])}')
    o.append(f'def tortOver : String := {lstr(M["tortOver"])}')
    o.append(f'def tortDispatch : List String := {lstrs(M["tortDispatch"])}')
    o.append(f'def tortDefaults : List (String × String) := {lpairs(sorted(M["tortDefaults"].items()))}')
    o.append(f'def saDecorators : List (String × List String) := {ldecos(M["saDecorators"])}')
    o.append(f'def saSegs : String := {lstr(M["saSegs"])}')
    o.append('/-- which node of a segment each column reads: `s[i]` -/')
    o.append(f'def saSiIndex : Int := {lint(M["saSiIndex"])}')
    o.append(f'def saStartIndex : Int := {lint(M["saStartIndex"])}')
    o.append(f'def saEndIndex : Int := {lint(M["saEndIndex"])}')
    o.append(f'def saRootDistIndex : Int := {lint(M["saRootDistIndex"])}')
    o.append(f'def saSiColumn : String := {lstr(M["saSiColumn"])}')
    o.append(f'def saSiById : Bool := {lbool(M["saSiById"])}')
    o.append(f'def saTortE : E := {M["saTortE"]}')
    o.append(f'def saLengthFn : String := {lstr(M["saLengthFn"])}')
    o.append(f'def saRootDistWeight : String := {lstr(M["saRootDistWeight"])}')
    o.append(f'def saVolE : E := {M["saVolE"]}')
    o.append(f'def saR1From : String := {lstr(M["saR1From"])}')
    o.append(f'def saR2From : String := {lstr(M["saR2From"])}')
    o.append(f'def saR2Fill : Int := {lint(M["saR2Fill"])}')
    o.append(f'def saHRootDist : Int := {lint(M["saHRootDist"])}')
    o.append(f'def saVolAgg : String := {lstr(M["saVolAgg"])}')
    o.append(f'def saVolOver : String := {lstr(M["saVolOver"])}')
    o.append(f'def saVolDefault : Int := {lint(M["saVolDefault"])}')
    o.append(f'def saRadStats : List (String × String) := {lpairs(M["saRadStats"])}')
    o.append(f'def saRadOver : String := {lstr(M["saRadOver"])}')
    o.append('/-- number of stores through a `.values` array (the pandas-3 copy-on-write defect fixed in 416ff90) -/')
    o.append(f'def saStoresThroughValues : Nat := {int(M["saStoresThroughValues"])}')
    o.append(f'def saColumns : List String := {lstrs(M["saColumns"])}\n')
    o.append('end Navis.Gen.Mmetrics')
    src = '\n'.join(o) + '\n'

    def js(d):
        return {k: (v if isinstance(v, (str, int, bool)) else str(v)) for k, v in d.items()}
    meta = {'sources': ['navis/morpho/mmetrics.py'],
            'facts': {'strahler_index': js(S), 'synapse_flow_centrality': js(C), 'flow_centrality': js(L_), 'bending_flow': js(B),
                      'segregation_index': js(G), 'tortuosity/segment_analysis': js(M)},
            'n_facts': sum(len(d) for d in (S, C, L_, B, G, M))}
    return 'Mmetrics.lean', src, meta
