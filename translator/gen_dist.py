"""Translator for C05: re-extract the declarative facts of navis' distance / segment code from the *current*
source (`navis/graph/graph_utils.py`, `navis/graph/converters.py`, `navis/morpho/mmetrics.py`,
`navis/core/skeleton.py`; read as text, walked with `ast`; nothing is imported from navis) and emit them as Lean
definitions (`Gen/Dist.lean`).  `Props/C05.lean` proves that they are what the model (`Model/Dist.lean`,
`Model/DistX.lean`) hard-wires, so that an edit of

* `geodesic_matrix`: the `limit` comparison of the fastcore branch (`dmat > limit` -> inf) and the guard around it
  (`limit is not None and limit is not np.inf`), the sentinel decoding (`dmat < 0` -> inf), how `from_` is normalised
  (`np.unique(make_iterable(..))`), tested for presence and for missing ids, which expression selects the computed rows
  (`sources=` / `indices=`) and which one labels them (`index=`), what labels the columns, that `directed`, `weight`
  and `limit` are forwarded to the routine that computes, `map_units` on the limit, `directed = False` for meshes;
* `skeleton_adjacency_matrix` / `neuron2nx` / `neuron2igraph` / `cable_length` / `TreeNeuron.edges`: the non-root
  filter `parent_id >= 0`; for the adjacency matrix also which subscript is the child position and which one the
  parent position, the id -> position map, and the labels of rows and columns, the `sort` re-indexing;
* `_generate_segments`: the leaf filter (`type == "end"`), the leaf sort key and direction, the walk (`parents[0]`,
  stop after appending a seen node), the `len(sequence) > 1` filter, the length expression, the final sort
  (`zip(lengths, sequences)`, `reverse=True`), the isolated nodes appended after the sort, what is handed to fastcore;
* `_break_segments`: the seed / stop type sets of the networkx branch, the degree selectors and the seed / stop
  formulas of the igraph branch, the loop condition;
* `dist_to_root`, `distal_to`, `dist_between`, `segment_length`, `parent_dist`, `cable_length`: graph modes, weights,
  `root_dist`, the scalar short-cut, the `np.unique` normalisation, index / columns of the result;
* `neuron2nx`, `neuron2igraph`, `cable_length`, `parent_dist`: whether the child - parent coordinate difference is computed in
  float (each operand: `.astype(float)`, float by construction through `reindex`, or the columns' own dtype);
* `TreeNeuron.segments / small_segments / cable_length / adjacency_matrix / geodesic_matrix`: callee + cache wrapper

makes a theorem stop checking.  Only these facts are extracted (operators, constants, argument names, resolved
expressions of single-assignment locals): renaming a local, reordering independent statements or adding logging keeps
the tie.  Anything that is not found in the expected shape raises (a broken tie is reported, never guessed)."""
import ast, json
from pathlib import Path

PROPS = ['C05']


# ------------------------------------------------------------------------------------------------ helpers
def _func(tree, name, cls=None):
    body = tree.body
    if cls:
        for n in body:
            if isinstance(n, ast.ClassDef) and n.name == cls:
                body = n.body
                break
        else:
            raise ValueError(f'class {cls} not found')
    found = [n for n in body if isinstance(n, ast.FunctionDef) and n.name == name]
    if not found:
        raise ValueError(f'function {cls + "." if cls else ""}{name} not found')
    return found[-1]          # the implementation follows its @overload stubs


def _op(n):
    return type(n).__name__


def _u(n):
    return ast.unparse(n)


def _const(n):
    if isinstance(n, ast.Constant):
        return n.value
    if isinstance(n, ast.UnaryOp) and isinstance(n.op, ast.USub) and isinstance(n.operand, ast.Constant):
        return -n.operand.value
    return None


def _walk(nodes):
    if isinstance(nodes, ast.AST):
        nodes = [nodes]
    for s in nodes:
        yield from ast.walk(s)


def _one(lst, what):
    lst = list(lst)
    if len(lst) != 1:
        raise ValueError(f'{what}: expected exactly one occurrence, found {len(lst)}')
    return lst[0]


def _calls(nodes, name):
    out = []
    for n in _walk(nodes):
        if isinstance(n, ast.Call):
            f = n.func
            last = f.attr if isinstance(f, ast.Attribute) else (f.id if isinstance(f, ast.Name) else None)
            if last == name:
                out.append(n)
    return out


def _kw(call, name):
    for k in call.keywords:
        if k.arg == name:
            return k.value
    return None


def _kws(call):
    return sorted(f'{k.arg}={_u(k.value)}' for k in call.keywords if k.arg)


def _decorators(fn):
    out = []
    for d in fn.decorator_list:
        f = d.func if isinstance(d, ast.Call) else d
        out.append(_u(f).split('.')[-1])
    return out


def _env(stmts, skip=()):
    """single-assignment locals `name = expr` of a statement list (recursively), minus `skip`"""
    seen = {}
    for n in _walk(stmts):
        if isinstance(n, ast.Assign) and len(n.targets) == 1 and isinstance(n.targets[0], ast.Name):
            seen.setdefault(n.targets[0].id, []).append(n.value)
        elif isinstance(n, (ast.AnnAssign, ast.AugAssign)) and isinstance(n.target, ast.Name):
            seen.setdefault(n.target.id, []).append(None)
        elif isinstance(n, (ast.For, ast.comprehension)):
            for c in ast.walk(n.target):
                if isinstance(c, ast.Name):
                    seen.setdefault(c.id, []).append(None)
    def selfref(k, v):
        return any(isinstance(c, ast.Name) and c.id == k for c in ast.walk(v))
    return {k: v[0] for k, v in seen.items() if len(v) == 1 and v[0] is not None and k not in skip and not selfref(k, v[0])}


class _Subst(ast.NodeTransformer):
    def __init__(self, env, depth=0):
        self.env, self.depth = env, depth

    def visit_Name(self, n):
        if isinstance(n.ctx, ast.Load) and n.id in self.env and self.depth < 8:
            import copy
            return _Subst(self.env, self.depth + 1).visit(copy.deepcopy(self.env[n.id]))
        return n


def _resolve(expr, env):
    """the expression with single-assignment locals replaced by their definitions (renaming a local is harmless)"""
    import copy
    return _u(_Subst(env).visit(copy.deepcopy(expr)))


def _resolve_ast(expr, env):
    import copy
    return _Subst(env).visit(copy.deepcopy(expr))


# 'float_dtype': a local holding a floating dtype (float64 for integer columns, the columns' own dtype if floating)
_FLOAT_NAMES = ('float_dtype', 'float', 'np.float64', 'numpy.float64', 'np.double', "'float'", "'float64'", '"float"', '"float64"', 'np.float_')


def _is_float_cast(n):
    return (isinstance(n, ast.Call) and isinstance(n.func, ast.Attribute) and n.func.attr == 'astype' and len(n.args) >= 1
            and _u(n.args[0]) in _FLOAT_NAMES)


class _StripCasts(ast.NodeTransformer):
    def visit_Call(self, n):
        self.generic_visit(n)
        if _is_float_cast(n):
            return n.func.value
        return n


def _strip_casts(expr):
    """the expression without its `.astype(float)` calls (the cast is recorded as a fact of its own)"""
    import copy
    return _StripCasts().visit(copy.deepcopy(expr))


def _mentions_xyz(n):
    s = _u(n)
    return "'x', 'y', 'z'" in s or '"x", "y", "z"' in s


def _operand_kind(n):
    """how an operand of the child - parent difference gets its dtype: an explicit float cast, float by construction
    (`reindex` with the roots' missing parents introduces NaN), or the columns' own dtype"""
    if _is_float_cast(n):
        return 'cast'
    if any(isinstance(c, ast.Call) and isinstance(c.func, ast.Attribute) and c.func.attr == 'reindex' for c in ast.walk(n)):
        return 'reindex-nan'
    if any(_is_float_cast(c) for c in ast.walk(n)):
        # a cast somewhere inside, e.g. `(a.astype(float))[ix]`: the values are float
        return 'cast'
    return 'raw'


def _diff_operands(expr, env, what):
    """kinds of the two operands of the coordinate difference inside `expr` (locals resolved)"""
    r = _resolve_ast(expr, env)
    subs = [n for n in ast.walk(r) if isinstance(n, ast.BinOp) and isinstance(n.op, ast.Sub) and _mentions_xyz(n.left) and _mentions_xyz(n.right)]
    if not subs:
        raise ValueError(f'{what}: child - parent coordinate difference not found')
    return [_operand_kind(subs[0].left), _operand_kind(subs[0].right)]


def _cmp_parent(nodes, what):
    """all comparisons `….parent_id[.values] <op> <int>` inside `nodes` -> [(op, const)]"""
    out = []
    for n in _walk(nodes):
        if isinstance(n, ast.Compare) and len(n.ops) == 1 and 'parent_id' in _u(n.left) and isinstance(_const(n.comparators[0]), int) \
                and not isinstance(_const(n.comparators[0]), bool):
            out.append((_op(n.ops[0]), _const(n.comparators[0])))
    if not out:
        raise ValueError(f'{what}: no `parent_id <op> <int>` comparison found')
    return out


def _given_test(test, name):
    """normal form of 'the optional argument `name` was given'"""
    s = _u(test)
    if s in (f'not isinstance({name}, type(None))', f'{name} is not None'):
        return 'is-not-None'
    if s == name:
        return 'truthy'
    return 'unknown:' + s


def _guard_atoms(test, name):
    """conjunction guarding the limit cut-off -> list of atoms"""
    if isinstance(test, ast.BoolOp) and isinstance(test.op, ast.And):
        out = []
        for v in test.values:
            out += _guard_atoms(v, name)
        return out
    s = _u(test)
    if s in (f'{name} is not None', f'not isinstance({name}, type(None))'):
        return ['is-not-None']
    if s in (f'{name} is not np.inf', f'{name} is not numpy.inf'):
        return ['is-not-np.inf']
    if s in (f'{name} != np.inf', f'not np.isinf({name})', f'np.isfinite({name})', f"{name} != float('inf')"):
        return ['ne-inf']
    if s == name:
        return ['truthy']
    return ['unknown:' + s]


def _mask_assigns(nodes, arr):
    """assignments `arr[arr <op> rhs] = value` -> [(op, rhs-expr, value-expr)]"""
    out = []
    for n in _walk(nodes):
        if isinstance(n, ast.Assign) and len(n.targets) == 1 and isinstance(n.targets[0], ast.Subscript) \
                and _u(n.targets[0].value) == arr and isinstance(n.targets[0].slice, ast.Compare) \
                and len(n.targets[0].slice.ops) == 1 and _u(n.targets[0].slice.left) == arr:
            c = n.targets[0].slice
            out.append((_op(c.ops[0]), c.comparators[0], n.value, n))
    return out


def _enclosing_if(fn_nodes, stmt):
    """the innermost If whose BODY (not orelse) contains `stmt`"""
    best = None
    for n in _walk(fn_nodes):
        if isinstance(n, ast.If) and any(stmt is c for b in n.body for c in ast.walk(b)):
            best = n          # ast.walk is breadth-first: later hits are deeper
    return best


# ------------------------------------------------------------------------------------------------ geodesic_matrix
def geodesic_facts(tree):
    F = {}
    gm = _func(tree, 'geodesic_matrix')
    top = gm.body
    fc_if = _one([s for s in top if isinstance(s, ast.If) and 'utils.fastcore' in _u(s.test)], 'geodesic_matrix: fastcore branch')
    F['fcTest'] = _u(fc_if.test)
    fc = fc_if.body
    sp = top[top.index(fc_if) + 1:]
    pre = top[:top.index(fc_if)]

    # limit = x.map_units(limit, ...) before either branch
    mu = [s for s in pre if isinstance(s, ast.Assign) and _u(s.targets[0]) == 'limit' and _calls(s.value, 'map_units')]
    F['limitMapUnits'] = len(mu) == 1 and _u(mu[0].value.args[0]) == 'limit'
    # NeuronList unwrapping
    nl = [s for s in pre if isinstance(s, ast.If) and 'NeuronList' in _u(s.test)]
    F['listLenTest'] = ''
    if nl:
        inner = [n for n in _walk(nl[0].body) if isinstance(n, ast.If) and 'len(x)' in _u(n.test)]
        F['listLenTest'] = _u(inner[0].test) if inner else ''
        F['listUnwrap'] = [ _u(s) for s in nl[0].body if isinstance(s, ast.Assign)]
    else:
        F['listUnwrap'] = []

    def from_block(stmts, what):
        """the `if <from_ given>: … else: …` statement of a branch"""
        cands = [s for s in stmts if isinstance(s, ast.If) and 'from_' in _u(s.test) and s.orelse]
        blk = _one(cands, f'{what}: from_ handling')
        G = {'given': _given_test(blk.test, 'from_')}
        norm = [s for s in blk.body if isinstance(s, ast.Assign) and _u(s.targets[0]) == 'from_']
        G['norm'] = _u(_one(norm, f'{what}: from_ normalisation').value)
        env_t = _env(blk.body, skip=('from_',))
        env_e = _env(blk.orelse, skip=('from_',))
        # missing ids: `if len(<miss>): raise ValueError`
        miss = [n for n in _walk(blk.body) if isinstance(n, ast.If) and any(isinstance(r, ast.Raise) for r in _walk(n.body))]
        if miss:
            m = miss[0]
            G['missTest'] = _resolve(m.test, env_t)
            r = [r for r in _walk(m.body) if isinstance(r, ast.Raise)][0]
            G['missRaises'] = _u(r.exc.func) if isinstance(r.exc, ast.Call) else _u(r.exc)
        else:
            G['missTest'], G['missRaises'] = '', ''
        return blk, env_t, env_e, G

    # ---- fastcore branch
    w = [s for s in fc if isinstance(s, ast.If) and isinstance(s.test, ast.Compare) and _u(s.test.left) == 'weight']
    wt = _one(w, 'geodesic_matrix[fastcore]: weight test')
    F['fcWeightCmp'], F['fcWeightLit'] = _op(wt.test.ops[0]), _const(wt.test.comparators[0])
    pd_ = _one(_calls(wt.body, 'parent_dist'), 'geodesic_matrix[fastcore]: parent_dist call')
    # the cast of the coordinates is a fact of its own (pdFcCoords / gmFcCoords); the argument list is recorded without it
    F['fcParentDistArgs'] = [_u(_strip_casts(a)) for a in pd_.args]
    F['gmFcCoords'] = [_operand_kind(a) for a in pd_.args if _mentions_xyz(a)]
    F['fcParentDistRootDist'] = _u(_kw(pd_, 'root_dist')) if _kw(pd_, 'root_dist') is not None else 'None'
    blk, env_t, env_e, G = from_block(fc, 'geodesic_matrix[fastcore]')
    F['fcFrom'] = G
    call = _one(_calls(fc, 'geodesic_matrix'), 'geodesic_matrix[fastcore]: accelerator call')
    F['fcCallArgs'] = [_u(a) for a in call.args]
    F['fcCallKws'] = _kws(call)
    ret = _one([n for n in _walk(fc) if isinstance(n, ast.Return)], 'geodesic_matrix[fastcore]: return')
    df = _one(_calls(ret, 'DataFrame'), 'geodesic_matrix[fastcore]: DataFrame')
    idx, col = _kw(df, 'index'), _kw(df, 'columns')
    if idx is None or col is None:
        raise ValueError('geodesic_matrix[fastcore]: DataFrame(index=, columns=) expected')
    F['fcRowLabelGiven'] = _resolve(idx, env_t)
    F['fcRowLabelAll'] = _resolve(idx, env_e)
    F['fcColLabel'] = _u(col)
    F['fcData'] = _u(df.args[0]) if df.args else ''
    ma = _mask_assigns(fc, 'dmat')
    sent = _one([m for m in ma if _const(m[1]) is not None], 'geodesic_matrix[fastcore]: sentinel decoding')
    F['fcSentinelCmp'], F['fcSentinelK'], F['fcSentinelValue'] = sent[0], _const(sent[1]), _u(sent[2])
    F['fcSentinelGuarded'] = _enclosing_if(fc, sent[3]) is not None
    lim = _one([m for m in ma if _u(m[1]) == 'limit'], 'geodesic_matrix[fastcore]: limit cut-off')
    F['fcLimitCmp'], F['fcLimitValue'] = lim[0], _u(lim[2])
    g = _enclosing_if(fc, lim[3])
    F['fcLimitGuard'] = _guard_atoms(g.test, 'limit') if g is not None else []
    # the sentinel must be decoded before the limit is applied (otherwise -1 <= limit survives)
    F['fcSentinelBeforeLimit'] = sent[3].lineno < lim[3].lineno

    # ---- scipy branch (igraph / networkx)
    mesh = [s for s in sp if isinstance(s, ast.If) and 'MeshNeuron' in _u(s.test)]
    F['spMeshDirected'] = ''
    for s in mesh:
        for a in s.body:
            if isinstance(a, ast.Assign) and _u(a.targets[0]) == 'directed':
                F['spMeshDirected'] = _u(a.value)
    gsel = _one([s for s in sp if isinstance(s, ast.If) and 'igraph' in _u(s.test) and s.orelse], 'geodesic_matrix[scipy]: graph selection')
    F['spGraphTest'] = _u(gsel.test)
    nl_ig = [a for a in _walk(gsel.body) if isinstance(a, ast.Assign) and _u(a.targets[0]) == 'nodeList']
    nl_nx = [a for a in _walk(gsel.orelse) if isinstance(a, ast.Assign) and _u(a.targets[0]) == 'nodeList']
    F['spNodeListIgraph'] = [_u(a.value) for a in nl_ig]
    F['spNodeListNx'] = [_u(a.value) for a in nl_nx]
    sparse_ig = _calls(gsel.body, '_igraph_to_sparse')
    F['spSparseIgraphKws'] = _kws(_one(sparse_ig, 'geodesic_matrix[scipy]: _igraph_to_sparse'))
    sparse_nx = _calls(gsel.orelse, 'to_scipy_sparse_array') + _calls(gsel.orelse, 'to_scipy_sparse_matrix')
    if not sparse_nx:
        raise ValueError('geodesic_matrix[scipy]: networkx sparse conversion not found')
    F['spSparseNxArgs'] = sorted({','.join(_u(a) for a in c.args) for c in sparse_nx})
    F['spSparseNxKws'] = sorted({';'.join(_kws(c)) for c in sparse_nx})
    blk, env_t, env_e, G = from_block(sp, 'geodesic_matrix[scipy]')
    F['spFrom'] = G
    dj = _one(_calls(sp, 'dijkstra'), 'geodesic_matrix[scipy]: dijkstra call')
    F['spCallKws'] = _kws(dj)
    ind = _kw(dj, 'indices')
    if ind is None:
        raise ValueError('geodesic_matrix[scipy]: dijkstra(indices=) expected')
    F['spIndicesGiven'] = _resolve(ind, env_t)
    F['spIndicesAll'] = _resolve(ind, env_e)
    ret = _one([n for n in sp if isinstance(n, ast.Return)], 'geodesic_matrix[scipy]: return')
    df = _one(_calls(ret, 'DataFrame'), 'geodesic_matrix[scipy]: DataFrame')
    idx, col = _kw(df, 'index'), _kw(df, 'columns')
    if idx is None or col is None:
        raise ValueError('geodesic_matrix[scipy]: DataFrame(index=, columns=) expected')
    F['spRowLabelGiven'] = _resolve(idx, env_t)
    F['spRowLabelAll'] = _resolve(idx, env_e)
    F['spColLabel'] = _u(col)
    return F


# ------------------------------------------------------------------------------------------------ adjacency + non-root filters
def adjacency_facts(tree):
    F = {}
    fn = _func(tree, 'skeleton_adjacency_matrix')
    cmps = _cmp_parent(fn, 'skeleton_adjacency_matrix')
    F['cmp'] = _one(sorted(set(cmps)), 'skeleton_adjacency_matrix: non-root filter')
    # placeholder for the mask so that the row / column expressions do not repeat the comparison
    mask_names = [n.targets[0].id for n in _walk(fn) if isinstance(n, ast.Assign) and isinstance(n.targets[0], ast.Name)
                  and isinstance(n.value, ast.Compare) and 'parent_id' in _u(n.value.left)]
    env = _env(fn.body, skip=tuple(mask_names) + ('sort', 'adj', 'x'))
    asg = [n for n in _walk(fn) if isinstance(n, ast.Assign) and isinstance(n.targets[0], ast.Subscript)
           and isinstance(n.targets[0].slice, ast.Tuple) and len(n.targets[0].slice.elts) == 2]
    a = _one(asg, 'skeleton_adjacency_matrix: mat[rows, cols] = …')
    F['target'] = _resolve(a.targets[0].value, env)
    F['rowIx'] = _resolve(a.targets[0].slice.elts[0], env)
    F['colIx'] = _resolve(a.targets[0].slice.elts[1], env)
    F['value'] = _u(a.value)
    F['maskName'] = _one(sorted(set(mask_names)), 'skeleton_adjacency_matrix: mask name') if mask_names else ''
    df = [c for c in _calls(fn, 'DataFrame') if _kw(c, 'index') is not None and _kw(c, 'columns') is not None]
    d = _one(df, 'skeleton_adjacency_matrix: DataFrame')
    F['index'], F['columns'] = _resolve(_kw(d, 'index'), env), _resolve(_kw(d, 'columns'), env)
    # if sort: sort = node_label_sorting(x); adj = adj.loc[sort, sort]
    srt = [s for s in fn.body if isinstance(s, ast.If) and _u(s.test) == 'sort']
    F['sortReindex'] = ''
    F['sortCallee'] = ''
    if srt:
        for s in srt[0].body:
            if isinstance(s, ast.Assign) and isinstance(s.value, ast.Subscript) and _u(s.value.value).endswith('.loc'):
                F['sortReindex'] = _u(s.value.slice)
            if isinstance(s, ast.Assign) and isinstance(s.value, ast.Call):
                F['sortCallee'] = _u(s.value.func)
    a_ = fn.args
    pos = a_.posonlyargs + a_.args
    dflt = {p.arg: _u(d_) for p, d_ in zip(pos[len(pos) - len(a_.defaults):], a_.defaults)}
    F['sortDefault'] = dflt.get('sort', '')
    return F


def nonroot_facts(gu, conv, mm, sk):
    out = []
    for nm, tree, fn, cls in (('skeleton_adjacency_matrix', gu, 'skeleton_adjacency_matrix', None),
                              ('neuron2nx', conv, 'neuron2nx', None), ('neuron2igraph', conv, 'neuron2igraph', None),
                              ('cable_length', mm, 'cable_length', None), ('TreeNeuron.edges', sk, 'edges', 'TreeNeuron')):
        f = _func(tree, fn, cls)
        nodes = f
        if nm in ('neuron2nx', 'neuron2igraph'):
            # only the TreeNeuron branch
            br = [s for s in f.body if isinstance(s, ast.If) and 'TreeNeuron' in _u(s.test) and 'NeuronList' not in _u(s.test)]
            nodes = _one(br, f'{nm}: TreeNeuron branch').body
        for op, k in _cmp_parent(nodes, nm):
            out.append((nm, op, k))
    return out


# ------------------------------------------------------------------------------------------------ segments
def generate_segments_facts(tree):
    F = {}
    fn = _func(tree, '_generate_segments')
    F['decorators'] = _decorators(fn)
    fc_if = _one([s for s in fn.body if isinstance(s, ast.If) and 'utils.fastcore' in _u(s.test)], '_generate_segments: fastcore branch')
    fc = fc_if.body
    py = fn.body[fn.body.index(fc_if) + 1:]
    w = _one([s for s in fc if isinstance(s, ast.If) and isinstance(s.test, ast.Compare) and _u(s.test.left) == 'weight'],
             '_generate_segments[fastcore]: weight test')
    F['fcWeightCmp'], F['fcWeightLit'] = _op(w.test.ops[0]), _const(w.test.comparators[0])
    pdc = _one(_calls(w.body, 'parent_dist'), '_generate_segments[fastcore]: parent_dist')
    F['fcRootDist'] = _u(_kw(pdc, 'root_dist')) if _kw(pdc, 'root_dist') is not None else 'None'
    F['sgFcCoords'] = [_operand_kind(a) for a in pdc.args if _mentions_xyz(a)]
    gs = _one(_calls(fc, 'generate_segments'), '_generate_segments[fastcore]: accelerator call')
    F['fcArgs'], F['fcKws'] = [_u(a) for a in gs.args], _kws(gs)
    # python path
    d = _one([s for s in py if isinstance(s, ast.Assign) and _calls(s.value, 'dist_to_root')], '_generate_segments: dist_to_root')
    F['distName'] = _u(d.targets[0])
    F['distKws'] = _kws(_calls(d.value, 'dist_to_root')[0])
    dn = F['distName']
    ends = [s for s in py if isinstance(s, ast.Assign) and any(isinstance(c, ast.Compare) and 'type' in _u(c.left) for c in ast.walk(s.value))]
    e = _one(ends, '_generate_segments: leaf filter')
    c = [c for c in ast.walk(e.value) if isinstance(c, ast.Compare) and 'type' in _u(c.left)][0]
    F['leafCmp'], F['leafType'] = _op(c.ops[0]), _const(c.comparators[0])
    srt = [s for s in py if isinstance(s, ast.Assign) and isinstance(s.value, ast.Call) and _u(s.value.func) == 'sorted'
           and _kw(s.value, 'key') is not None]
    s = _one(srt, '_generate_segments: leaf sort')
    key = _kw(s.value, 'key')
    if not isinstance(key, ast.Lambda) or len(key.args.args) != 1:
        raise ValueError('_generate_segments: leaf sort key is not a one-argument lambda')
    arg = key.args.args[0].arg

    class R(ast.NodeTransformer):
        def visit_Name(self, n):
            if n.id == arg:
                return ast.Name('LEAF', n.ctx)
            if n.id == dn:
                return ast.Name('ROOTDIST', n.ctx)
            return n
    import copy
    F['leafKey'] = _u(R().visit(copy.deepcopy(key.body)))
    rv = _kw(s.value, 'reverse')
    F['leafReverse'] = _u(rv) if rv is not None else 'False'
    # walk
    loop = _one([s for s in py if isinstance(s, ast.For) and any(isinstance(c, ast.While) for c in ast.walk(s))], '_generate_segments: leaf loop')
    wh = _one([c for c in ast.walk(loop) if isinstance(c, ast.While)], '_generate_segments: walk')
    seq = []           # the order of the decisive statements inside the walk
    for st in wh.body:
        if isinstance(st, ast.If) and any(isinstance(b, ast.Break) for b in st.body):
            t = _u(st.test)
            seq.append('break-if:' + ('not-parents' if t.startswith('not ') else ('in-seen' if ' in seen' in t else t)))
        elif isinstance(st, ast.Expr) and isinstance(st.value, ast.Call):
            f = _u(st.value.func)
            seq.append('call:' + f.split('.')[-1] + ':' + f.split('.')[0])
        elif isinstance(st, ast.Assign):
            v = st.value
            if isinstance(v, ast.Subscript) and _const(v.slice) is not None:
                seq.append(f'pick:{_const(v.slice)}')
            elif _calls(v, 'successors'):
                seq.append('next:successors')
            else:
                seq.append('assign')
    F['walk'] = seq
    keep = [c for c in ast.walk(loop) if isinstance(c, ast.If) and 'len(sequence)' in _u(c.test) and isinstance(c.test, ast.Compare)]
    k = _one(keep, '_generate_segments: len(sequence) filter')
    F['keepCmp'], F['keepK'] = _op(k.test.ops[0]), _const(k.test.comparators[0])
    # lengths + final sort
    ln = [s for s in py if isinstance(s, ast.Assign) and _u(s.targets[0]) == 'lengths' and isinstance(s.value, ast.ListComp)]
    l = _one(ln, '_generate_segments: lengths')
    v = l.value.generators[0].target.id

    class R2(ast.NodeTransformer):
        def visit_Name(self, n):
            if n.id == v:
                return ast.Name('SEG', n.ctx)
            if n.id == dn:
                return ast.Name('ROOTDIST', n.ctx)
            return n
    F['lengthExpr'] = _u(R2().visit(copy.deepcopy(l.value.elt)))
    fs = [s for s in py if isinstance(s, ast.Assign) and _u(s.targets[0]) == 'sequences' and isinstance(s.value, ast.ListComp)
          and _calls(s.value, 'sorted')]
    f = _one(fs, '_generate_segments: final sort')
    sc = _calls(f.value, 'sorted')[0]
    z = _one(_calls(sc, 'zip'), '_generate_segments: zip in the final sort')
    F['finalZip'] = [_u(a) for a in z.args]
    rv = _kw(sc, 'reverse')
    F['finalReverse'] = _u(rv) if rv is not None else 'False'
    F['finalHasKey'] = _kw(sc, 'key') is not None
    tgt = f.value.generators[0].target
    F['finalPick'] = [(_u(e)) for e in tgt.elts].index(_u(f.value.elt)) if isinstance(tgt, ast.Tuple) else -1
    iso = [s for s in py if isinstance(s, ast.For) and _calls(s.iter, 'isolates')]
    i = _one(iso, '_generate_segments: isolated nodes')
    F['isolatedAfterSort'] = i.lineno > f.lineno
    F['isolatedAppend'] = [_u(c.args[0]) for c in _calls(i.body, 'append') if _u(c.func).startswith('sequences')]
    F['isolatedGraph'] = _u(_calls(i.iter, 'isolates')[0].args[0])
    return F


def break_segments_facts(tree):
    F = {}
    fn = _func(tree, '_break_segments')
    fc_if = _one([s for s in fn.body if isinstance(s, ast.If) and _u(s.test) == 'utils.fastcore'], '_break_segments: back-end dispatch')
    gs = _one(_calls(fc_if.body, 'break_segments'), '_break_segments[fastcore]')
    F['fcArgs'] = [_u(a) for a in gs.args]
    ig_if = _one([s for s in fc_if.orelse if isinstance(s, ast.If)], '_break_segments: igraph branch')
    F['igTest'] = _u(ig_if.test)
    ig, nx_ = ig_if.body, ig_if.orelse
    sel = {}
    for s in ig:
        if isinstance(s, ast.Assign) and _calls(s.value, 'select'):
            c = _calls(s.value, 'select')[0]
            sel[_u(s.targets[0])] = _kws(c)
    F['igSelect'] = sorted(f'{k}:{",".join(v)}' for k, v in sel.items())
    envi = {k: v for k, v in _env(ig).items() if k in ('seeds', 'stops')}
    seeds = [s for s in ig if isinstance(s, ast.Assign) and _u(s.targets[0]) == 'seeds']
    F['igSeeds'] = [_u(s.value) for s in seeds]
    stops = [s for s in ig if isinstance(s, ast.Assign) and _u(s.targets[0]) == 'stops']
    F['igStops'] = [_u(s.value) for s in stops]
    wh = _one([c for c in _walk(ig) if isinstance(c, ast.While)], '_break_segments[igraph]: walk')
    F['igWhile'] = _u(wh.test)
    F['igStart'] = [_u(s.value) for s in _walk(ig) if isinstance(s, ast.Assign) and _u(s.targets[0]) == 'seg' and isinstance(s.value, ast.List)]
    # networkx
    isin = {}
    for s in nx_:
        if isinstance(s, ast.Assign) and _calls(s.value, 'isin') and _u(s.targets[0]) in ('seeds', 'stops'):
            c = _calls(s.value, 'isin')[0]
            isin[_u(s.targets[0])] = (sorted(ast.literal_eval(c.args[0])), _u(c.func))
    if set(isin) != {'seeds', 'stops'}:
        raise ValueError('_break_segments[networkx]: seeds / stops not found')
    F['nxSeeds'], F['nxStops'] = isin['seeds'][0], isin['stops'][0]
    F['nxColumn'] = sorted({isin['seeds'][1], isin['stops'][1]})
    wh = _one([c for c in _walk(nx_) if isinstance(c, ast.While)], '_break_segments[networkx]: walk')
    F['nxWhile'] = _u(wh.test)
    F['nxStart'] = [_u(s.value) for s in _walk(nx_) if isinstance(s, ast.Assign) and _u(s.targets[0]) == 'seg' and isinstance(s.value, ast.List)]
    return F


# ------------------------------------------------------------------------------------------------ point queries
def point_facts(tree):
    F = {}
    fn = _func(tree, 'dist_to_root')
    c = _one(_calls(fn, 'shortest_path_length'), 'dist_to_root: shortest_path_length')
    F['rootArgs'], F['rootKws'] = [_u(a) for a in c.args], _kws(c)
    lp = _one([s for s in fn.body if isinstance(s, ast.For)], 'dist_to_root: loop over roots')
    F['rootLoop'] = f'{_u(lp.target)} in {_u(lp.iter)}'
    F['rootUpdate'] = [_u(s.value.func) for s in lp.body if isinstance(s, ast.Expr) and isinstance(s.value, ast.Call)]
    ii = [s for s in fn.body if isinstance(s, ast.If) and _u(s.test) == 'igraph_indices']
    F['rootIndexMap'] = ''
    for s in _walk(ii):
        if isinstance(s, ast.Assign) and _u(s.targets[0]) == 'dist' and isinstance(s.value, ast.DictComp):
            F['rootIndexMap'] = _u(s.value)
    F['rootDecorators'] = _decorators(fn)

    fn = _func(tree, 'distal_to')
    uq = [s for s in _walk(fn) if isinstance(s, ast.Assign) and _u(s.targets[0]) in ('tnA', 'tnB') and _calls(s.value, 'unique')]
    F['distalNorm'] = sorted(f'{_u(s.targets[0])}={_u(s.value)}' for s in uq)
    alln = [s for s in _walk(fn) if isinstance(s, ast.Assign) and _u(s.targets[0]) in ('tnA', 'tnB') and 'node_id' in _u(s.value)
            and not _calls(s.value, 'unique')]
    F['distalAll'] = sorted(f'{_u(s.targets[0])}={_u(s.value)}' for s in alln)
    F['distalGiven'] = sorted({_given_test(s.test, nm) for s in _walk(fn) if isinstance(s, ast.If) for nm in ('a', 'b')
                               if _u(s.test) in (f'not isinstance({nm}, type(None))', f'{nm} is not None', nm)})
    d = _one(_calls(fn, 'distances'), 'distal_to[igraph]: distances')
    F['distalIgArgs'], F['distalIgKws'] = [_u(a) for a in d.args], _kws(d)
    ne = [c for c in _walk(fn) if isinstance(c, ast.Compare) and 'inf' in _u(c.comparators[0]) and _u(c.left) == 'le']
    c = _one(ne, 'distal_to[igraph]: finite test')
    F['distalFiniteCmp'] = _op(c.ops[0])
    dfs = [c for c in _calls(fn, 'DataFrame')]
    F['distalFrames'] = sorted(f'index={_u(_kw(c, "index"))};columns={_u(_kw(c, "columns"))}' for c in dfs)
    sp = _one(_calls(fn, 'shortest_path_length'), 'distal_to[networkx]: shortest_path_length')
    F['distalNxKws'] = _kws(sp)
    colasg = [s for s in _walk(fn) if isinstance(s, ast.Assign) and isinstance(s.targets[0], ast.Subscript) and _u(s.targets[0].value) == 'df']
    a = _one(colasg, 'distal_to[networkx]: column assignment')
    F['distalNxAssign'] = f'{_u(a.targets[0])} = {_u(a.value)}'
    sc = [s for s in fn.body if isinstance(s, ast.If) and 'df.shape' in _u(s.test)]
    s = _one(sc, 'distal_to: scalar short-cut')
    F['distalScalarTest'] = _u(s.test)
    F['distalScalarValue'] = _u(s.body[0].value) if isinstance(s.body[0], ast.Return) else ''

    fn = _func(tree, 'dist_between')
    nxc = _one(_calls(fn, 'shortest_path_length'), 'dist_between[networkx]')
    F['betweenNxArgs'], F['betweenNxKws'] = [_u(a) for a in nxc.args], _kws(nxc)
    tr = [n for n in _walk(fn) if isinstance(n, ast.Try) and any(nxc is c for b in n.body for c in ast.walk(b))]
    F['betweenNoPath'] = ''
    if tr:
        for h in tr[0].handlers:
            if h.type is not None and 'NoPath' in _u(h.type):
                r = [s for s in h.body if isinstance(s, ast.Return)]
                F['betweenNoPath'] = _u(r[0].value) if r else ''
    ig = [c for c in _calls(fn, 'distances')]
    c = _one(ig, 'dist_between[igraph]')
    F['betweenIgKws'] = _kws(c)
    F['betweenIgFind'] = sorted({_u(c) for c in _calls(fn, 'find')})

    fn = _func(tree, 'segment_length')
    lc = [n for n in _walk(fn) if isinstance(n, ast.ListComp)]
    l = _one(lc, 'segment_length: list comprehension')
    F['seglenElt'] = _u(l.elt)
    F['seglenIter'] = _u(l.generators[0].iter)
    F['seglenTarget'] = _u(l.generators[0].target)
    r = _one([s for s in fn.body if isinstance(s, ast.Return)], 'segment_length: return')
    F['seglenReturn'] = _u(r.value.func) if isinstance(r.value, ast.Call) else _u(r.value)
    return F


def metrics_facts(mm):
    F = {}
    fn = _func(mm, 'parent_dist')
    py = _one([s for s in fn.body if isinstance(s, ast.If) and 'fastcore' in _u(s.test)], 'parent_dist: back-end dispatch')
    neg = isinstance(py.test, ast.UnaryOp)
    pyb, fcb = (py.body, py.orelse) if neg else (py.orelse, py.body)
    env = _env(pyb, skip=('w',))
    w = _one([s for s in pyb if isinstance(s, ast.Assign) and _u(s.targets[0]) == 'w'], 'parent_dist: w')
    F['pdFormula'] = _u(_strip_casts(w.value))
    F['pdParentCoords'] = _u(_strip_casts(_resolve_ast(ast.Name('parent_coords', ast.Load()), env)))
    F['pdChildCoords'] = _u(_strip_casts(_resolve_ast(ast.Name('tn_coords', ast.Load()), env)))
    F['pdDiff'] = _diff_operands(w.value, env, 'parent_dist')
    F['pdFcCoords'] = [_operand_kind(a) for a in _one(_calls(fcb, 'parent_dist'), 'parent_dist[fastcore]').args if _mentions_xyz(a)]
    nanasg = [s for s in pyb if isinstance(s, ast.Assign) and isinstance(s.targets[0], ast.Subscript) and 'isnan' in _u(s.targets[0].slice)]
    F['pdRootFill'] = _u(_one(nanasg, 'parent_dist: root fill').value)
    c = _one(_calls(fcb, 'parent_dist'), 'parent_dist[fastcore]')
    F['pdFcKws'] = _kws(c)

    fn = _func(mm, 'cable_length')
    F['clDecorators'] = _decorators(fn)
    d = _one([s for s in _walk(fn) if isinstance(s, ast.If) and _u(s.test) in ('not utils.fastcore', 'utils.fastcore')], 'cable_length: back-end dispatch')
    neg = isinstance(d.test, ast.UnaryOp)
    pyb, fcb = (d.body, d.orelse) if neg else (d.orelse, d.body)
    asg = _one([s for s in pyb if isinstance(s, ast.Assign) and _u(s.targets[0]) == 'cable_length'], 'cable_length: python sum')
    F['clPy'] = _u(_strip_casts(asg.value))
    F['clDiff'] = _diff_operands(asg.value, _env(pyb), 'cable_length')
    asg = _one([s for s in fcb if isinstance(s, ast.Assign) and _u(s.targets[0]) == 'cable_length'], 'cable_length: fastcore sum')
    c = _one(_calls(asg.value, 'parent_dist'), 'cable_length[fastcore]: parent_dist')
    F['clFcCoords'] = [_operand_kind(a) for a in c.args if _mentions_xyz(a)]
    F['clFcKws'] = _kws(c)
    F['clFcReduce'] = asg.value.func.attr if isinstance(asg.value, ast.Call) and isinstance(asg.value.func, ast.Attribute) else ''
    # mask: orphaned parents become roots
    orph = [s for s in _walk(fn) if isinstance(s, ast.Assign) and isinstance(s.targets[0], ast.Subscript) and 'isin' in _u(s.targets[0])]
    o = _one(orph, 'cable_length: orphan repair under a mask')
    F['clOrphan'] = f'{_u(o.targets[0])} = {_u(o.value)}'
    F['clEmpty'] = [f'{_u(s.test)} -> {_u(s.body[0].value)}' for s in _walk(fn) if isinstance(s, ast.If) and 'len(nodes)' in _u(s.test)
                    and isinstance(s.body[0], ast.Return)]
    return F


def converter_facts(conv):
    F = {}
    fn = _func(conv, 'neuron2nx')
    br = _one([s for s in fn.body if isinstance(s, ast.If) and 'TreeNeuron' in _u(s.test) and 'NeuronList' not in _u(s.test)], 'neuron2nx: TreeNeuron branch')
    env = _env(br.body)
    w = _one([s for s in br.body if isinstance(s, ast.Assign) and _u(s.targets[0]) == 'weights'], 'neuron2nx: weights')
    F['nxWeights'] = ''.join(_u(_strip_casts(w.value)).split())
    F['nxDiff'] = _diff_operands(w.value, {k: v for k, v in env.items() if k != 'weights'}, 'neuron2nx')
    F['nxEdges'] = _resolve(ast.Name('edges', ast.Load()), {k: v for k, v in env.items() if k == 'edges'})
    F['nxElist'] = _resolve(ast.Name('elist', ast.Load()), {k: v for k, v in env.items() if k == 'elist'})
    F['nxAdd'] = sorted(_u(c.func).split('.')[-1] + ':' + ','.join(_u(a) for a in c.args) for c in _walk(br.body)
                        if isinstance(c, ast.Call) and _u(c.func).startswith('G.add'))
    fn = _func(conv, 'neuron2igraph')
    br = _one([s for s in fn.body if isinstance(s, ast.If) and 'TreeNeuron' in _u(s.test) and 'NeuronList' not in _u(s.test)], 'neuron2igraph: TreeNeuron branch')
    w = _one([s for s in br.body if isinstance(s, ast.Assign) and _u(s.targets[0]) == 'w'], 'neuron2igraph: w')
    F['igWeights'] = ''.join(_u(w.value).split())
    env = _env(br.body, skip=('nodes',))
    el = [s for s in br.body if isinstance(s, ast.Assign) and _u(s.targets[0]) == 'elist']
    if not el:
        raise ValueError('neuron2igraph: elist not found')
    F['igElist'] = _u(el[0].value)
    F['igChildCoords'] = _u(_strip_casts(_resolve_ast(ast.Name('tn_coords', ast.Load()), {k: v for k, v in env.items() if k in ('tn_coords',)})))
    F['igParentCoords'] = _u(_strip_casts(_resolve_ast(ast.Name('parent_coords', ast.Load()), {k: v for k, v in env.items() if k in ('parent_coords',)})))
    F['igDiff'] = _diff_operands(w.value, {k: v for k, v in env.items() if k in ('tn_coords', 'parent_coords')}, 'neuron2igraph')
    g = _one([c for c in _calls(br.body, 'Graph')], 'neuron2igraph: Graph()')
    F['igGraphKws'] = _kws(g)
    at = [s for s in br.body if isinstance(s, ast.Assign) and any('G.es' in _u(t) or 'G.vs' in _u(t) for t in s.targets)]
    F['igAttrs'] = sorted(' = '.join(_u(t) for t in s.targets) + ' = ' + _u(s.value) for s in at)
    return F


def skeleton_facts(sk):
    F = {}
    for prop, expect in (('segments', None), ('small_segments', None), ('cable_length', None), ('adjacency_matrix', None),
                         ('geodesic_matrix', None)):
        fn = _func(sk, prop, 'TreeNeuron')
        calls = [c for c in _walk(fn) if isinstance(c, ast.Call) and (_u(c.func).startswith(('graph.', 'morpho.', 'self._get_segments')))]
        c = _one(calls, f'TreeNeuron.{prop}: callee')
        F[prop] = (_u(c.func), [_u(a) for a in c.args], _kws(c), _decorators(fn))
    fn = _func(sk, '_get_segments', 'TreeNeuron')
    disp = []
    for s in _walk(fn):
        if isinstance(s, ast.If) and isinstance(s.test, ast.Compare) and _u(s.test.left) == 'how':
            r = [x for x in s.body if isinstance(x, ast.Return)]
            if r and isinstance(r[0].value, ast.Call):
                disp.append(f'{_const(s.test.comparators[0])}->{_u(r[0].value.func)}({",".join(_u(a) for a in r[0].value.args)}{"," if r[0].value.keywords else ""}{",".join(_kws(r[0].value))})')
    F['getSegments'] = sorted(disp)
    return F


# ------------------------------------------------------------------------------------------------ emission
def lstr(s):
    return json.dumps(s if s is not None else 'None')


def lstrs(xs):
    return '[' + ', '.join(lstr(x) for x in xs) + ']'


def lbool(b):
    return 'true' if b else 'false'


def lint(i):
    return f'({i})' if i < 0 else str(i)


def generate(repo: Path):
    repo = Path(repo)
    srcs = {}
    for k, p in (('gu', 'navis/graph/graph_utils.py'), ('conv', 'navis/graph/converters.py'), ('mm', 'navis/morpho/mmetrics.py'),
                 ('sk', 'navis/core/skeleton.py')):
        srcs[k] = ast.parse((repo / p).read_text())
    G = geodesic_facts(srcs['gu'])
    A = adjacency_facts(srcs['gu'])
    NR = nonroot_facts(srcs['gu'], srcs['conv'], srcs['mm'], srcs['sk'])
    S = generate_segments_facts(srcs['gu'])
    B = break_segments_facts(srcs['gu'])
    P = point_facts(srcs['gu'])
    M = metrics_facts(srcs['mm'])
    C = converter_facts(srcs['conv'])
    K = skeleton_facts(srcs['sk'])

    L = []
    L.append('/- GENERATED by translator/gen_dist.py from navis/graph/graph_utils.py, navis/graph/converters.py,')
    L.append('   navis/morpho/mmetrics.py, navis/core/skeleton.py.  Do not edit: regenerated from the current source tree on every')
    L.append('   `./check C05`. -/')
    L.append('namespace Navis.Gen.Dist')
    L.append('')
    L.append('/-! ### `geodesic_matrix` -/')
    L.append('/-- `limit = x.map_units(limit, …)` before either branch -/')
    L.append(f'def limitMapUnits : Bool := {lbool(G["limitMapUnits"])}')
    L.append('/-- NeuronList input: the length test that raises, and the unwrapping -/')
    L.append(f'def listLenTest : String := {lstr(G["listLenTest"])}')
    L.append(f'def listUnwrap : List String := {lstrs(G["listUnwrap"])}')
    L.append('/-- fastcore branch: `if weight <cmp> <lit>: weight = parent_dist(ids, parents, xyz, root_dist=…)` -/')
    L.append(f'def fcWeightCmp : String := {lstr(G["fcWeightCmp"])}')
    L.append(f'def fcWeightLit : String := {lstr(G["fcWeightLit"])}')
    L.append(f'def fcParentDistArgs : List String := {lstrs(G["fcParentDistArgs"])}')
    L.append(f'def fcParentDistRootDist : String := {lstr(G["fcParentDistRootDist"])}')
    L.append('/-- fastcore branch, `from_`: presence test, normalisation, missing-id test and exception -/')
    L.append(f'def fcFromGiven : String := {lstr(G["fcFrom"]["given"])}')
    L.append(f'def fcFromNorm : String := {lstr(G["fcFrom"]["norm"])}')
    L.append(f'def fcMissTest : String := {lstr(G["fcFrom"]["missTest"])}')
    L.append(f'def fcMissRaises : String := {lstr(G["fcFrom"]["missRaises"])}')
    L.append('/-- the accelerator call: positional arguments and keywords -/')
    L.append(f'def fcCallArgs : List String := {lstrs(G["fcCallArgs"])}')
    L.append(f'def fcCallKws : List String := {lstrs(G["fcCallKws"])}')
    L.append('/-- `pd.DataFrame(<data>, index=<rows>, columns=<cols>)`: the row labels when `from_` is given / not given -/')
    L.append(f'def fcData : String := {lstr(G["fcData"])}')
    L.append(f'def fcRowLabelGiven : String := {lstr(G["fcRowLabelGiven"])}')
    L.append(f'def fcRowLabelAll : String := {lstr(G["fcRowLabelAll"])}')
    L.append(f'def fcColLabel : String := {lstr(G["fcColLabel"])}')
    L.append('/-- `dmat[dmat <cmp> <k>] = <value>` (unreachable pairs), unconditional and before the limit is applied -/')
    L.append(f'def fcSentinelCmp : String := {lstr(G["fcSentinelCmp"])}')
    L.append(f'def fcSentinelK : Int := {lint(G["fcSentinelK"])}')
    L.append(f'def fcSentinelValue : String := {lstr(G["fcSentinelValue"])}')
    L.append(f'def fcSentinelGuarded : Bool := {lbool(G["fcSentinelGuarded"])}')
    L.append(f'def fcSentinelBeforeLimit : Bool := {lbool(G["fcSentinelBeforeLimit"])}')
    L.append('/-- `if <guard>: dmat[dmat <cmp> limit] = <value>` -/')
    L.append(f'def fcLimitGuard : List String := {lstrs(G["fcLimitGuard"])}')
    L.append(f'def fcLimitCmp : String := {lstr(G["fcLimitCmp"])}')
    L.append(f'def fcLimitValue : String := {lstr(G["fcLimitValue"])}')
    L.append('/-- scipy branch (igraph / networkx graphs) -/')
    L.append(f'def spMeshDirected : String := {lstr(G["spMeshDirected"])}')
    L.append(f'def spGraphTest : String := {lstr(G["spGraphTest"])}')
    L.append(f'def spNodeListIgraph : List String := {lstrs(G["spNodeListIgraph"])}')
    L.append(f'def spNodeListNx : List String := {lstrs(G["spNodeListNx"])}')
    L.append(f'def spSparseIgraphKws : List String := {lstrs(G["spSparseIgraphKws"])}')
    L.append(f'def spSparseNxArgs : List String := {lstrs(G["spSparseNxArgs"])}')
    L.append(f'def spSparseNxKws : List String := {lstrs(G["spSparseNxKws"])}')
    L.append(f'def spFromGiven : String := {lstr(G["spFrom"]["given"])}')
    L.append(f'def spFromNorm : String := {lstr(G["spFrom"]["norm"])}')
    L.append(f'def spMissTest : String := {lstr(G["spFrom"]["missTest"])}')
    L.append(f'def spMissRaises : String := {lstr(G["spFrom"]["missRaises"])}')
    L.append(f'def spCallKws : List String := {lstrs(G["spCallKws"])}')
    L.append(f'def spIndicesGiven : String := {lstr(G["spIndicesGiven"])}')
    L.append(f'def spIndicesAll : String := {lstr(G["spIndicesAll"])}')
    L.append(f'def spRowLabelGiven : String := {lstr(G["spRowLabelGiven"])}')
    L.append(f'def spRowLabelAll : String := {lstr(G["spRowLabelAll"])}')
    L.append(f'def spColLabel : String := {lstr(G["spColLabel"])}')
    L.append('')
    L.append('/-! ### `skeleton_adjacency_matrix` and the non-root filters -/')
    L.append('/-- `not_root = parent_id <cmp> <k>` -/')
    L.append(f'def adjCmp : String := {lstr(A["cmp"][0])}')
    L.append(f'def adjK : Int := {lint(A["cmp"][1])}')
    L.append('/-- `<target>[<rowIx>, <colIx>] = <value>` with single-assignment locals resolved (the mask keeps its name) -/')
    L.append(f'def adjMaskName : String := {lstr(A["maskName"])}')
    L.append(f'def adjTarget : String := {lstr(A["target"])}')
    L.append(f'def adjRowIx : String := {lstr(A["rowIx"])}')
    L.append(f'def adjColIx : String := {lstr(A["colIx"])}')
    L.append(f'def adjValue : String := {lstr(A["value"])}')
    L.append(f'def adjIndex : String := {lstr(A["index"])}')
    L.append(f'def adjColumns : String := {lstr(A["columns"])}')
    L.append('/-- `if sort: sort = <callee>(x); adj = adj.loc[<reindex>]` -/')
    L.append(f'def adjSortDefault : String := {lstr(A["sortDefault"])}')
    L.append(f'def adjSortCallee : String := {lstr(A["sortCallee"])}')
    L.append(f'def adjSortReindex : String := {lstr(A["sortReindex"])}')
    L.append('/-- every `parent_id <cmp> <int>` comparison of the functions that decide which rows carry an edge -/')
    L.append('def nonRootTests : List (String × String × Int) := [' + ', '.join(f'({lstr(a)}, {lstr(b)}, {lint(c)})' for a, b, c in NR) + ']')
    L.append('')
    L.append('/-! ### `_generate_segments` -/')
    L.append(f'def segDecorators : List String := {lstrs(S["decorators"])}')
    L.append(f'def segFcWeightCmp : String := {lstr(S["fcWeightCmp"])}')
    L.append(f'def segFcWeightLit : String := {lstr(S["fcWeightLit"])}')
    L.append(f'def segFcRootDist : String := {lstr(S["fcRootDist"])}')
    L.append(f'def segFcArgs : List String := {lstrs(S["fcArgs"])}')
    L.append(f'def segFcKws : List String := {lstrs(S["fcKws"])}')
    L.append('/-- `d = dist_to_root(x, …)` -/')
    L.append(f'def segDistKws : List String := {lstrs(S["distKws"])}')
    L.append('/-- leafs: `x.nodes[x.nodes.type <cmp> <lit>]`, `sorted(…, key=lambda LEAF: <key>, reverse=<…>)` -/')
    L.append(f'def segLeafCmp : String := {lstr(S["leafCmp"])}')
    L.append(f'def segLeafType : String := {lstr(S["leafType"])}')
    L.append(f'def segLeafKey : String := {lstr(S["leafKey"])}')
    L.append(f'def segLeafReverse : String := {lstr(S["leafReverse"])}')
    L.append('/-- the decisive statements of the walk, in order -/')
    L.append(f'def segWalk : List String := {lstrs(S["walk"])}')
    L.append('/-- `if len(sequence) <cmp> <k>: sequences.append(sequence)` -/')
    L.append(f'def segKeepCmp : String := {lstr(S["keepCmp"])}')
    L.append(f'def segKeepK : Int := {lint(S["keepK"])}')
    L.append('/-- `lengths = [<expr> for SEG in sequences]`; `[x for _, x in sorted(zip(<a>, <b>), reverse=<…>)]` -/')
    L.append(f'def segLengthExpr : String := {lstr(S["lengthExpr"])}')
    L.append(f'def segFinalZip : List String := {lstrs(S["finalZip"])}')
    L.append(f'def segFinalReverse : String := {lstr(S["finalReverse"])}')
    L.append(f'def segFinalHasKey : Bool := {lbool(S["finalHasKey"])}')
    L.append(f'def segFinalPick : Int := {lint(S["finalPick"])}')
    L.append('/-- `for node in nx.isolates(<graph>): sequences.append(<…>)`, after the sort -/')
    L.append(f'def segIsolatedAfterSort : Bool := {lbool(S["isolatedAfterSort"])}')
    L.append(f'def segIsolatedAppend : List String := {lstrs(S["isolatedAppend"])}')
    L.append(f'def segIsolatedGraph : String := {lstr(S["isolatedGraph"])}')
    L.append('')
    L.append('/-! ### `_break_segments` -/')
    L.append(f'def brkFcArgs : List String := {lstrs(B["fcArgs"])}')
    L.append(f'def brkIgTest : String := {lstr(B["igTest"])}')
    L.append(f'def brkIgSelect : List String := {lstrs(B["igSelect"])}')
    L.append(f'def brkIgSeeds : List String := {lstrs(B["igSeeds"])}')
    L.append(f'def brkIgStops : List String := {lstrs(B["igStops"])}')
    L.append(f'def brkIgWhile : String := {lstr(B["igWhile"])}')
    L.append(f'def brkIgStart : List String := {lstrs(B["igStart"])}')
    L.append(f'def brkNxSeeds : List String := {lstrs(B["nxSeeds"])}')
    L.append(f'def brkNxStops : List String := {lstrs(B["nxStops"])}')
    L.append(f'def brkNxColumn : List String := {lstrs(B["nxColumn"])}')
    L.append(f'def brkNxWhile : String := {lstr(B["nxWhile"])}')
    L.append(f'def brkNxStart : List String := {lstrs(B["nxStart"])}')
    L.append('')
    L.append('/-! ### `dist_to_root`, `distal_to`, `dist_between`, `segment_length` -/')
    L.append(f'def rootArgs : List String := {lstrs(P["rootArgs"])}')
    L.append(f'def rootKws : List String := {lstrs(P["rootKws"])}')
    L.append(f'def rootLoop : String := {lstr(P["rootLoop"])}')
    L.append(f'def rootUpdate : List String := {lstrs(P["rootUpdate"])}')
    L.append(f'def rootIndexMap : String := {lstr(P["rootIndexMap"])}')
    L.append(f'def distalGiven : List String := {lstrs(P["distalGiven"])}')
    L.append(f'def distalNorm : List String := {lstrs(P["distalNorm"])}')
    L.append(f'def distalAll : List String := {lstrs(P["distalAll"])}')
    L.append(f'def distalIgArgs : List String := {lstrs(P["distalIgArgs"])}')
    L.append(f'def distalIgKws : List String := {lstrs(P["distalIgKws"])}')
    L.append(f'def distalFiniteCmp : String := {lstr(P["distalFiniteCmp"])}')
    L.append(f'def distalFrames : List String := {lstrs(P["distalFrames"])}')
    L.append(f'def distalNxKws : List String := {lstrs(P["distalNxKws"])}')
    L.append(f'def distalNxAssign : String := {lstr(P["distalNxAssign"])}')
    L.append(f'def distalScalarTest : String := {lstr(P["distalScalarTest"])}')
    L.append(f'def distalScalarValue : String := {lstr(P["distalScalarValue"])}')
    L.append(f'def betweenNxArgs : List String := {lstrs(P["betweenNxArgs"])}')
    L.append(f'def betweenNxKws : List String := {lstrs(P["betweenNxKws"])}')
    L.append(f'def betweenNoPath : String := {lstr(P["betweenNoPath"])}')
    L.append(f'def betweenIgKws : List String := {lstrs(P["betweenIgKws"])}')
    L.append(f'def betweenIgFind : List String := {lstrs(P["betweenIgFind"])}')
    L.append(f'def seglenElt : String := {lstr(P["seglenElt"])}')
    L.append(f'def seglenIter : String := {lstr(P["seglenIter"])}')
    L.append(f'def seglenTarget : String := {lstr(P["seglenTarget"])}')
    L.append(f'def seglenReturn : String := {lstr(P["seglenReturn"])}')
    L.append('')
    L.append('/-! ### `parent_dist`, `cable_length`, graph converters -/')
    L.append(f'def pdFormula : String := {lstr(M["pdFormula"])}')
    L.append(f'def pdChildCoords : String := {lstr(M["pdChildCoords"])}')
    L.append(f'def pdParentCoords : String := {lstr(M["pdParentCoords"])}')
    L.append(f'def pdRootFill : String := {lstr(M["pdRootFill"])}')
    L.append(f'def pdFcKws : List String := {lstrs(M["pdFcKws"])}')
    L.append(f'def clDecorators : List String := {lstrs(M["clDecorators"])}')
    L.append(f'def clPy : String := {lstr(M["clPy"])}')
    L.append(f'def clFcKws : List String := {lstrs(M["clFcKws"])}')
    L.append(f'def clFcReduce : String := {lstr(M["clFcReduce"])}')
    L.append(f'def clOrphan : String := {lstr(M["clOrphan"])}')
    L.append(f'def clEmpty : List String := {lstrs(M["clEmpty"])}')
    L.append(f'def nxWeights : String := {lstr(C["nxWeights"])}')
    L.append(f'def nxEdges : String := {lstr(C["nxEdges"])}')
    L.append(f'def nxElist : String := {lstr(C["nxElist"])}')
    L.append(f'def nxAdd : List String := {lstrs(C["nxAdd"])}')
    L.append(f'def igWeights : String := {lstr(C["igWeights"])}')
    L.append(f'def igElist : String := {lstr(C["igElist"])}')
    L.append(f'def igChildCoords : String := {lstr(C["igChildCoords"])}')
    L.append(f'def igParentCoords : String := {lstr(C["igParentCoords"])}')
    L.append(f'def igGraphKws : List String := {lstrs(C["igGraphKws"])}')
    L.append(f'def igAttrs : List String := {lstrs(C["igAttrs"])}')
    L.append('/-- how the two operands (child, parent) of the coordinate difference get their dtype at every site that computes an edge')
    L.append('length in Python: "cast" = `.astype(float)`, "reindex-nan" = float by construction (reindex introduces NaN for the roots),')
    L.append('"raw" = the coordinate columns\' own dtype (the `.astype(float)` calls are stripped from the expressions above) -/')
    L.append(f'def nxDiffOperands : List String := {lstrs(C["nxDiff"])}')
    L.append(f'def igDiffOperands : List String := {lstrs(C["igDiff"])}')
    L.append(f'def clDiffOperands : List String := {lstrs(M["clDiff"])}')
    L.append(f'def pdDiffOperands : List String := {lstrs(M["pdDiff"])}')
    L.append('/-- the coordinate argument handed to navis-fastcore `parent_dist` by `parent_dist` / `cable_length` -/')
    L.append(f'def pdFcCoords : List String := {lstrs(M["pdFcCoords"])}')
    L.append(f'def clFcCoords : List String := {lstrs(M["clFcCoords"])}')
    L.append('/-- the same for the `parent_dist` calls inside `geodesic_matrix` and `_generate_segments` (fastcore branches) -/')
    L.append(f'def gmFcCoords : List String := {lstrs(G["gmFcCoords"])}')
    L.append(f'def sgFcCoords : List String := {lstrs(S["sgFcCoords"])}')
    L.append('')
    L.append('/-! ### `TreeNeuron` views: (callee, positional arguments, keywords, decorators) -/')
    for prop in ('segments', 'small_segments', 'cable_length', 'adjacency_matrix', 'geodesic_matrix'):
        c, a, k, d = K[prop]
        nm = 'view' + ''.join(p.capitalize() for p in prop.split('_'))
        L.append(f'def {nm} : String × List String × List String × List String := ({lstr(c)}, {lstrs(a)}, {lstrs(k)}, {lstrs(d)})')
    L.append(f'def getSegments : List String := {lstrs(K["getSegments"])}')
    L.append('')
    L.append('end Navis.Gen.Dist')
    src = '\n'.join(L) + '\n'
    meta = {'source': ['navis/graph/graph_utils.py', 'navis/graph/converters.py', 'navis/morpho/mmetrics.py', 'navis/core/skeleton.py'],
            'facts': sum(1 for l in L if l.startswith('def ')),
            'fcLimit': f'{G["fcLimitGuard"]} -> dmat {G["fcLimitCmp"]} limit', 'adjacency_nonroot': list(A['cmp']),
            'nonRootTests': [list(x) for x in NR], 'break_nx': [B['nxSeeds'], B['nxStops']]}
    return 'Dist.lean', src, meta
