"""Translator for C08: re-extract the declarative facts of navis' transform / bridging code from the *current* source
(`navis/transforms/templates.py`, `base.py`, `thinplate.py`, `moving_least_squares.py` and the class table of every
`navis/transforms/*.py`; read as text, walked with `ast`; nothing is imported from navis) and emit them as Lean
definitions (`Gen/Bridge.lean`).  `Props/C08.lean` proves that they coincide with what the Lean models hard-wire
(`Model/Bridge.lean`, `Model/Tps.lean`), so that an edit of

* the decision logic of the `for path in nx.all_simple_paths(...)` loop of `find_bridging_path` (translated into a
  Boolean function of the four facts "via given", "all via on the path", "avoid given", "some avoid on the path";
  ANY logically equivalent rewrite keeps the theorem, the historical `elif avoid and …` does not), the guard of the
  shortest-path short cut, the `make_iterable` normalisation of `via` / `avoid`;
* `bridging_graph`: the `lru_cache` decorator, the `type == 'bridging'` filter, the `invertible` filter of the reverse
  edges, the end points / transform / weight expression of forward and reverse edges (weights are translated into
  `Rat` arithmetic), the `if reciprocal:` guard;
* `register_transform`: the `invertible=hasattr(transform, '__neg__')` test, the append condition (translated into a
  Boolean function of `skip_existing` and "already registered"), the unconditional `self.clear_caches()`;
  `clear_caches`: which caches are cleared; which caches exist;
* which transform classes define `__neg__` (hence are registered as invertible);
* `TransformSequence.__neg__` (members negated, order reversed), `TransformSequence.xform` (working array is a fresh
  copy, row-wise NaN mask, masked write-back, all-NaN skip);
* `TPStransform`: `__neg__` swaps source and target and does not carry the cached coefficients over, `copy` does,
  `_calc_tps_coefs` argument order, which landmark set the kernel is evaluated against, the two summands of `xform`;
  `MovingLeastSquaresTransform.__neg__` flips `reverse`

makes a theorem stop checking.  Local names are normalised, statement order of independent statements, comments,
log lines and error messages are irrelevant.  Anything the extractor cannot find in the expected shape raises (a
broken tie is reported, never guessed)."""
import ast
from pathlib import Path

PROPS = ['C08']


# ------------------------------------------------------------------------------------------------ helpers
def _cls(tree, name):
    for n in tree.body:
        if isinstance(n, ast.ClassDef) and n.name == name:
            return n
    raise ValueError(f'class {name} not found')


def _meth(cls, name):
    for n in cls.body:
        if isinstance(n, ast.FunctionDef) and n.name == name:
            return n
    raise ValueError(f'{cls.name}.{name} not found')


def _is_self_attr(n, attr=None):
    return (isinstance(n, ast.Attribute) and isinstance(n.value, ast.Name) and n.value.id == 'self'
            and (attr is None or n.attr == attr))


def _lean_str(s):
    return '"' + s.replace('\\', '\\\\').replace('"', '\\"') + '"'


def _lean_list(xs):
    return '[' + ', '.join(_lean_str(x) for x in xs) + ']'


def _lean_bool(b):
    return 'true' if b else 'false'


class _Rename(ast.NodeTransformer):
    def __init__(self, m):
        self.m = m

    def visit_Name(self, n):
        return ast.copy_location(ast.Name(id=self.m.get(n.id, n.id), ctx=n.ctx), n)


def _norm(n, roles=None):
    n = ast.parse(ast.unparse(n), mode='eval').body
    if roles:
        n = _Rename(roles).visit(n)
    return ast.unparse(n)


def _has_cache_decorator(fn):
    for d in fn.decorator_list:
        s = ast.unparse(d)
        if 'lru_cache' in s or s.split('(')[0].split('.')[-1] == 'cache':
            return True
    return False


# ------------------------------------------------------------------------------------------------ Boolean trees
class BoolTr:
    """Python test -> Lean Bool term over named atoms."""

    def __init__(self, atom):
        self.atom = atom        # ast node -> Lean variable name or None

    def tr(self, n):
        a = self.atom(n)
        if a is not None:
            return a
        if isinstance(n, ast.BoolOp):
            op = ' && ' if isinstance(n.op, ast.And) else ' || '
            return '(' + op.join(self.tr(v) for v in n.values) + ')'
        if isinstance(n, ast.UnaryOp) and isinstance(n.op, ast.Not):
            return f'(!{self.tr(n.operand)})'
        if isinstance(n, ast.Constant) and isinstance(n.value, bool):
            return _lean_bool(n.value)
        raise ValueError(f'cannot translate the test `{ast.unparse(n)}`')


def _membership_reduce(n, fn_name, coll):
    """`all([v in path for v in via])` / `any(v in path for v in avoid)` -> True when it has exactly that meaning."""
    if not (isinstance(n, ast.Call) and isinstance(n.func, ast.Name) and n.func.id == fn_name and len(n.args) == 1
            and not n.keywords):
        return False
    c = n.args[0]
    if not isinstance(c, (ast.ListComp, ast.GeneratorExp)) or len(c.generators) != 1:
        return False
    g = c.generators[0]
    if g.ifs or not isinstance(g.target, ast.Name) or not (isinstance(g.iter, ast.Name) and g.iter.id == coll):
        return False
    e = c.elt
    return (isinstance(e, ast.Compare) and len(e.ops) == 1 and isinstance(e.ops[0], ast.In)
            and isinstance(e.left, ast.Name) and e.left.id == g.target.id
            and isinstance(e.comparators[0], ast.Name) and e.comparators[0].id == 'path')


def _decision_atom(n):
    if isinstance(n, ast.Name) and n.id == 'via':
        return 'vne'
    if isinstance(n, ast.Name) and n.id == 'avoid':
        return 'ane'
    if _membership_reduce(n, 'all', 'via'):
        return 'allv'
    if _membership_reduce(n, 'any', 'avoid'):
        return 'anya'
    # `not all(v not in path …)`-style rewrites are not recognised on purpose: they raise (broken tie, never guessed)
    return None


def _accept_tree(stmts, flag, bt):
    """Lean Bool term: does executing `stmts` (one loop iteration) set `<flag> = True`?
    acc([]) = false, acc(s :: rest) = acc(s) || acc(rest); an `if` chooses its branch."""
    parts = []
    for s in stmts:
        if isinstance(s, ast.If):
            parts.append(f'(if {bt.tr(s.test)} then {_accept_tree(s.body, flag, bt)} else {_accept_tree(s.orelse, flag, bt)})')
        elif isinstance(s, ast.Assign) and len(s.targets) == 1 and isinstance(s.targets[0], ast.Name) \
                and s.targets[0].id == flag:
            if not (isinstance(s.value, ast.Constant) and s.value.value is True):
                raise ValueError(f'`{flag}` is assigned something other than True inside the loop')
            parts.append('true')
        elif isinstance(s, (ast.Assign, ast.Break, ast.Continue, ast.Pass, ast.Expr)):
            continue
        else:
            raise ValueError(f'unexpected statement in the path loop: {ast.unparse(s)[:80]}')
    if not parts:
        return 'false'
    return parts[0] if len(parts) == 1 else '(' + ' || '.join(parts) + ')'


# ------------------------------------------------------------------------------------------------ Rat expressions
def _rat_expr(n, names):
    """numeric Python expression over `names` (ast.unparse -> Lean variable) -> Lean Rat term"""
    key = ast.unparse(n)
    if key in names:
        return names[key]
    if isinstance(n, ast.BinOp):
        ops = {ast.Add: '+', ast.Sub: '-', ast.Mult: '*', ast.Div: '/'}
        for k, v in ops.items():
            if isinstance(n.op, k):
                return f'({_rat_expr(n.left, names)} {v} {_rat_expr(n.right, names)})'
    if isinstance(n, ast.UnaryOp) and isinstance(n.op, ast.USub):
        return f'(-{_rat_expr(n.operand, names)})'
    if isinstance(n, ast.Constant) and isinstance(n.value, (int, float)) and not isinstance(n.value, bool):
        from fractions import Fraction
        f = Fraction(n.value)
        return f'(({f.numerator} : Rat) / {f.denominator})' if f.denominator != 1 else f'({f.numerator} : Rat)'
    raise ValueError(f'cannot translate the weight expression `{key}`')


# ------------------------------------------------------------------------------------------------ templates.py
def _edge_tuple(elt, var):
    """`(t.source, t.target, {'transform': …, 'weight': …, …})` -> (u, v, transform expr node, weight expr node)"""
    if not (isinstance(elt, ast.Tuple) and len(elt.elts) == 3 and isinstance(elt.elts[2], ast.Dict)):
        raise ValueError(f'edge is not a (u, v, dict) tuple: {ast.unparse(elt)[:80]}')
    u, v, d = elt.elts
    keys = {k.value: val for k, val in zip(d.keys, d.values) if isinstance(k, ast.Constant)}
    if 'transform' not in keys or 'weight' not in keys:
        raise ValueError('edge data lacks `transform` / `weight`')
    r = {var: 't'}
    return _norm(u, r), _norm(v, r), keys['transform'], keys['weight']


def _comp_of(n):
    if isinstance(n, ast.ListComp) and len(n.generators) == 1 and isinstance(n.generators[0].target, ast.Name):
        g = n.generators[0]
        return n.elt, g.target.id, g.iter, g.ifs
    raise ValueError(f'expected a single-generator list comprehension, got {ast.unparse(n)[:80]}')


def graph_facts(fn):
    f = {'graphCached': _has_cache_decorator(fn)}
    assigns = {}
    for n in ast.walk(fn):
        if isinstance(n, ast.Assign) and len(n.targets) == 1 and isinstance(n.targets[0], ast.Name):
            assigns.setdefault(n.targets[0].id, []).append(n)
    # bridge = [t for t in self.transforms if t.type == 'bridging']
    lists = {}
    for name, nodes in assigns.items():
        for a in nodes:
            if isinstance(a.value, ast.ListComp):
                elt, var, it, ifs = _comp_of(a.value)
                if isinstance(elt, ast.Name) and elt.id == var:
                    lists[name] = (_norm(it), sorted(_norm(c, {var: 't'}) for c in ifs))
    # forward edges: the list comprehension assigned to the name later passed to add_edges_from
    added = None
    for n in ast.walk(fn):
        if isinstance(n, ast.Call) and isinstance(n.func, ast.Attribute) and n.func.attr == 'add_edges_from' \
                and n.args and isinstance(n.args[0], ast.Name):
            added = n.args[0].id
    if added is None or added not in assigns:
        raise ValueError('bridging_graph: `G.add_edges_from(<edges>)` not found')
    fwd = [a for a in assigns[added] if isinstance(a.value, ast.ListComp)]
    if len(fwd) != 1:
        raise ValueError('bridging_graph: expected one list comprehension building the forward edges')
    elt, var, it, ifs = _comp_of(fwd[0].value)
    u, v, tr, w = _edge_tuple(elt, var)
    if ifs:
        raise ValueError('bridging_graph: forward edge comprehension has a filter of its own')
    src_list = _norm(it)
    if src_list not in lists:
        raise ValueError(f'bridging_graph: forward edges iterate over `{src_list}`, which is not a filtered list')
    f['fwdEnds'] = [u, v]
    f['fwdTransform'] = _norm(tr, {var: 't'})
    f['fwdWeight'] = _rat_expr(ast.parse(_norm(w, {var: 't'}), mode='eval').body, {'t.weight': 'w'})
    f['fwdOver'] = list(lists[src_list])          # (iterated list, filters)
    # reverse edges: every `if <reciprocal>:` block whose body (eventually) extends `added`
    rec_if = None
    for n in fn.body:
        if isinstance(n, ast.If) and any(isinstance(c, ast.AugAssign) and isinstance(c.target, ast.Name)
                                         and c.target.id == added for c in ast.walk(n)):
            rec_if = n
    if rec_if is None:
        raise ValueError('bridging_graph: no `if …:` block adding reverse edges')
    f['revGuard'] = _norm(rec_if.test)
    aug = [c for c in ast.walk(rec_if) if isinstance(c, ast.AugAssign) and isinstance(c.target, ast.Name)
           and c.target.id == added]
    if len(aug) != 1 or not isinstance(aug[0].op, ast.Add) or not isinstance(aug[0].value, ast.Name):
        raise ValueError('bridging_graph: expected `edges += rv_edges`')
    rv = aug[0].value.id

    def rev_of(stmts):
        out = [s for s in stmts if isinstance(s, ast.Assign) and len(s.targets) == 1
               and isinstance(s.targets[0], ast.Name) and s.targets[0].id == rv]
        if len(out) != 1:
            raise ValueError('bridging_graph: expected exactly one assignment of the reverse edges per branch')
        elt, var, it, ifs = _comp_of(out[0].value)
        if ifs:
            raise ValueError('bridging_graph: reverse edge comprehension has a filter of its own')
        u, v, tr, w = _edge_tuple(elt, var)
        over = _norm(it)
        if over not in lists:
            raise ValueError(f'bridging_graph: reverse edges iterate over `{over}`')
        base, filt = lists[over]
        # resolve one level: bridge_inv = [t for t in bridge if t.invertible]
        if base in lists:
            filt = sorted(filt + lists[base][1])
            base = lists[base][0]
        return ([u, v], _norm(tr, {var: 't'}),
                _rat_expr(ast.parse(_norm(w, {var: 't'}), mode='eval').body, {'t.weight': 'w', 'reciprocal': 'k'}),
                [base] + filt)
    inner = [s for s in rec_if.body if isinstance(s, ast.If)]
    if len(inner) == 1 and 'isinstance' in ast.unparse(inner[0].test):
        f['revNumberTest'] = _norm(inner[0].test)
        f['revNumber'] = rev_of(inner[0].body)
        f['revOther'] = rev_of(inner[0].orelse)
    else:
        f['revNumberTest'] = 'True'
        f['revNumber'] = rev_of(rec_if.body)
        f['revOther'] = f['revNumber']
    base, filt = f['fwdOver']
    f['fwdOver'] = [base] + filt
    return f


def find_facts(fn):
    f = {}
    # normalisation of via / avoid: `X = …make_iterable(X)…`
    for who in ('via', 'avoid'):
        ok = False
        for n in ast.walk(fn):
            if isinstance(n, ast.Assign) and len(n.targets) == 1 and isinstance(n.targets[0], ast.Name) \
                    and n.targets[0].id == who:
                for c in ast.walk(n.value):
                    if isinstance(c, ast.Call) and ast.unparse(c.func).endswith('make_iterable') \
                            and c.args and isinstance(c.args[0], ast.Name) and c.args[0].id == who:
                        ok = True
        f[who + 'Normalised'] = ok
    # the loop
    loops = [n for n in ast.walk(fn) if isinstance(n, ast.For) and isinstance(n.iter, ast.Call)
             and ast.unparse(n.iter.func).endswith('all_simple_paths')]
    if len(loops) != 1:
        raise ValueError(f'find_bridging_path: expected one loop over all_simple_paths, found {len(loops)}')
    loop = loops[0]
    if not (isinstance(loop.target, ast.Name) and loop.target.id == 'path'):
        raise ValueError('find_bridging_path: loop variable is not `path`')
    args = [ast.unparse(a) for a in loop.iter.args]
    f['enumArgs'] = args[1:] + [f'{k.arg}={ast.unparse(k.value)}' for k in loop.iter.keywords]
    bt = BoolTr(_decision_atom)
    f['acceptTree'] = _accept_tree(loop.body, 'found_good', bt)
    # every `found_good = True` must be followed by a break in the same block (the accepted path is the one kept)
    def blocks(stmts):
        yield stmts
        for s in stmts:
            if isinstance(s, ast.If):
                yield from blocks(s.body)
                yield from blocks(s.orelse)
    brk = True
    for b in blocks(loop.body):
        for i, s in enumerate(b):
            if isinstance(s, ast.Assign) and ast.unparse(s.targets[0]) == 'found_good':
                if not any(isinstance(x, ast.Break) for x in b[i + 1:]):
                    brk = False
    f['acceptBreaks'] = brk
    # the if/else the loop lives in: `if not via and not avoid: shortest_path else: loop`
    guard = None
    for n in ast.walk(fn):
        if isinstance(n, ast.If) and any(c is loop for c in ast.walk(ast.Module(body=n.orelse, type_ignores=[]))) \
                and any(isinstance(c, ast.Call) and ast.unparse(c.func).endswith('shortest_path') for c in
                        ast.walk(ast.Module(body=n.body, type_ignores=[]))):
            guard = n
    if guard is None:
        raise ValueError('find_bridging_path: `if <no via, no avoid>: shortest_path … else: loop` not found')
    f['shortcutTree'] = bt.tr(guard.test)
    sp = [c for c in ast.walk(ast.Module(body=guard.body, type_ignores=[])) if isinstance(c, ast.Call)
          and ast.unparse(c.func).endswith('shortest_path')][0]
    f['shortestArgs'] = [ast.unparse(a) for a in sp.args[1:]] + [f'{k.arg}={ast.unparse(k.value)}' for k in sp.keywords]
    # errors after the loop: `if not found_any: raise` / `elif not found_good: raise`
    f['raisesWhenNotGood'] = any(isinstance(n, ast.If) and 'found_good' in ast.unparse(n.test)
                                 and any(isinstance(c, ast.Raise) for c in ast.walk(n)) for n in ast.walk(guard))
    return f


def _bool_fn(test, atoms):
    def atom(n):
        return atoms.get(ast.unparse(n))
    return BoolTr(atom).tr(test)


def _is_hasattr_neg(n, who):
    return (isinstance(n, ast.Call) and isinstance(n.func, ast.Name) and n.func.id == 'hasattr' and len(n.args) == 2
            and isinstance(n.args[0], ast.Name) and n.args[0].id == who
            and isinstance(n.args[1], ast.Constant) and n.args[1].value == '__neg__')


def _inv_atom(n):
    """atoms of the `invertible` computation: is the transform a sequence / does it define __neg__ / do all members"""
    if isinstance(n, ast.Call) and isinstance(n.func, ast.Name) and n.func.id == 'isinstance' and len(n.args) == 2 \
            and ast.unparse(n.args[0]) == 'transform' and ast.unparse(n.args[1]) == 'TransformSequence':
        return 'isSeq'
    if _is_hasattr_neg(n, 'transform'):
        return 'selfNeg'
    if isinstance(n, ast.Call) and isinstance(n.func, ast.Name) and n.func.id == 'all' and len(n.args) == 1 \
            and isinstance(n.args[0], (ast.GeneratorExp, ast.ListComp)) and len(n.args[0].generators) == 1:
        g = n.args[0].generators[0]
        if not g.ifs and isinstance(g.target, ast.Name) and ast.unparse(g.iter) == 'transform.transforms' \
                and _is_hasattr_neg(n.args[0].elt, g.target.id):
            return 'allNeg'
    return None


def _invertible_tree(fn, value):
    """Lean Bool term for the value handed to `invertible=`: an expression over the atoms, or a local assigned by
    top-level statements / one top-level if-else of `register_transform`."""
    bt = BoolTr(_inv_atom)
    if not isinstance(value, ast.Name):
        return bt.tr(value)
    name = value.id

    def assigned(stmts):
        out = None
        for s_ in stmts:
            if isinstance(s_, ast.Assign) and len(s_.targets) == 1 and isinstance(s_.targets[0], ast.Name) \
                    and s_.targets[0].id == name:
                out = bt.tr(s_.value)
            elif isinstance(s_, ast.If) and any(isinstance(c, ast.Assign) and ast.unparse(c.targets[0]) == name
                                                for c in ast.walk(s_)):
                a, b = assigned(s_.body), assigned(s_.orelse)
                if a is None or b is None:
                    if out is None:
                        raise ValueError(f'register_transform: `{name}` is not assigned on every branch')
                    a, b = a or out, b or out
                out = f'(if {bt.tr(s_.test)} then {a} else {b})'
        return out
    t = assigned(fn.body)
    if t is None:
        raise ValueError(f'register_transform: assignment of `{name}` not found')
    return t


def register_facts(cls):
    fn = _meth(cls, 'register_transform')
    f = {}
    inv = None
    for n in ast.walk(fn):
        if isinstance(n, ast.keyword) and n.arg == 'invertible':
            inv = n.value
    if inv is None:
        raise ValueError('register_transform: `invertible=` not found')
    f['invertibleOf'] = _invertible_tree(fn, inv)
    # append condition
    cond = None
    for n in fn.body:
        if isinstance(n, ast.If):
            for c in ast.walk(ast.Module(body=n.body, type_ignores=[])):
                if isinstance(c, ast.Call) and isinstance(c.func, ast.Attribute) and c.func.attr == 'append' \
                        and ast.unparse(c.func.value) in ('self.transforms', 'self._transforms'):
                    cond = n.test
    if cond is None:
        # unconditional append?
        unc = any(isinstance(s, ast.Expr) and isinstance(s.value, ast.Call) and isinstance(s.value.func, ast.Attribute)
                  and s.value.func.attr == 'append' and ast.unparse(s.value.func.value) in ('self.transforms', 'self._transforms')
                  for s in fn.body)
        if not unc:
            raise ValueError('register_transform: append to the transform list not found')
        f['appendCond'] = 'true'
    else:
        f['appendCond'] = _bool_fn(cond, {'skip_existing': 'skip', 'edge in self': 'present',
                                          'edge not in self': '(!present)',
                                          'edge in self.transforms': 'present', 'edge not in self.transforms': '(!present)'})
    f['registerClears'] = any(isinstance(s, ast.Expr) and isinstance(s.value, ast.Call)
                              and ast.unparse(s.value.func) == 'self.clear_caches' for s in fn.body)
    cc = _meth(cls, 'clear_caches')
    f['cleared'] = sorted(c.func.value.attr for c in ast.walk(cc) if isinstance(c, ast.Call)
                          and isinstance(c.func, ast.Attribute) and c.func.attr == 'cache_clear'
                          and _is_self_attr(c.func.value))
    f['cached'] = sorted(m.name for m in cls.body if isinstance(m, ast.FunctionDef) and _has_cache_decorator(m))
    return f


def xform_brain_facts(tree):
    for n in tree.body:
        if isinstance(n, ast.FunctionDef) and n.name == 'xform_brain':
            for c in ast.walk(n):
                if isinstance(c, ast.Call) and ast.unparse(c.func).endswith('find_bridging_path'):
                    kws = {k.arg: ast.unparse(k.value) for k in c.keywords}
                    pos = [ast.unparse(a) for a in c.args]
                    return {'brainArgs': pos + [f'{k}={v}' for k, v in sorted(kws.items())]}
    raise ValueError('xform_brain: call of find_bridging_path not found')


# ------------------------------------------------------------------------------------------------ base.py
def seq_facts(tree):
    cls = _cls(tree, 'TransformSequence')
    f = {}
    neg = _meth(cls, '__neg__')
    rets = [n for n in ast.walk(neg) if isinstance(n, ast.Return)]
    if len(rets) != 1:
        raise ValueError('TransformSequence.__neg__: expected one return')
    comps = [n for n in ast.walk(rets[0]) if isinstance(n, (ast.ListComp, ast.GeneratorExp))]
    if len(comps) != 1:
        raise ValueError('TransformSequence.__neg__: expected one comprehension')
    c = comps[0]
    g = c.generators[0]
    it = ast.unparse(g.iter)
    f['seqNegReverses'] = it in ('self.transforms[::-1]', 'reversed(self.transforms)', 'self.transforms.__reversed__()')
    if not f['seqNegReverses'] and it != 'self.transforms':
        raise ValueError(f'TransformSequence.__neg__: iterates over `{it}`')
    f['seqNegNegates'] = (isinstance(c.elt, ast.UnaryOp) and isinstance(c.elt.op, ast.USub)
                          and isinstance(c.elt.operand, ast.Name) and c.elt.operand.id == g.target.id and not g.ifs)
    # copy(): exists and rebuilds the sequence from copies of the members
    cps = [m for m in cls.body if isinstance(m, ast.FunctionDef) and m.name == 'copy']
    f['seqHasCopy'] = bool(cps)
    f['seqCopyCopiesMembers'] = False
    if cps:
        for c in ast.walk(cps[0]):
            if isinstance(c, ast.Call) and ast.unparse(c.func) in ('TransformSequence', 'self.__class__', 'type(self)') \
                    and any(isinstance(a, ast.Starred) and ast.unparse(a.value) == 'self.transforms' for a in c.args):
                kw = {k.arg: ast.unparse(k.value) for k in c.keywords}
                f['seqCopyCopiesMembers'] = kw.get('copy', _init_copy_default(cls)) == 'True'
    f['seqInitCopyDefault'] = _init_copy_default(cls) == 'True'
    # append(): a sequence argument is unpacked into its members; the `xform` test looks at the member
    ap = _meth(cls, 'append')
    arg = ap.args.args[1].arg
    f['appendUnpacksSeq'] = any(isinstance(n, ast.If) and ast.unparse(n.test) == f'isinstance({arg}, TransformSequence)'
                                and any(isinstance(b, ast.Assign) and ast.unparse(b.targets[0]) == arg
                                        and ast.unparse(b.value) == f'{arg}.transforms' for b in n.body) for n in ap.body)
    loops = [n for n in ap.body if isinstance(n, ast.For) and isinstance(n.target, ast.Name)]
    if len(loops) != 1:
        raise ValueError('TransformSequence.append: member loop not found')
    lv = loops[0].target.id
    tested = set()
    for n in ast.walk(loops[0]):
        if isinstance(n, ast.Call) and isinstance(n.func, ast.Name) and n.func.id == 'hasattr' and len(n.args) == 2 \
                and isinstance(n.args[1], ast.Constant) and n.args[1].value == 'xform':
            tested.add(ast.unparse(n.args[0]))
    f['appendTestsMember'] = tested <= {lv}          # no test at all, or a test of the loop variable
    f['appendIsinstanceOnMember'] = any(isinstance(n, ast.Call) and ast.unparse(n.func) == 'isinstance' and n.args
                                        and ast.unparse(n.args[0]) == lv for n in ast.walk(loops[0]))
    f['appendMergesIntoLast'] = any(isinstance(n, ast.Call) and ast.unparse(n.func) == 'self.transforms[-1].append'
                                    and n.args and ast.unparse(n.args[0]) == lv for n in ast.walk(loops[0]))
    xf = _meth(cls, 'xform')
    # working copy: first assignment to the array that is written back into
    wb = [n for n in ast.walk(xf) if isinstance(n, ast.Assign) and isinstance(n.targets[0], ast.Subscript)
          and isinstance(n.targets[0].value, ast.Name)]
    if not wb:
        raise ValueError('TransformSequence.xform: masked write-back not found')
    arr = wb[0].targets[0].value.id
    init = [n for n in xf.body if isinstance(n, ast.Assign) and isinstance(n.targets[0], ast.Name) and n.targets[0].id == arr]
    if len(init) != 1:
        raise ValueError('TransformSequence.xform: initialisation of the working array not found')
    f['xfFresh'] = _is_fresh_copy(init[0].value)
    f['xfDtype'] = 'float64' if 'float64' in ast.unparse(init[0].value) else 'other'
    loop = [n for n in xf.body if isinstance(n, ast.For) and any(w in ast.walk(n) for w in wb)]
    if len(loop) != 1:
        raise ValueError('TransformSequence.xform: member loop not found')
    loop = loop[0]
    f['xfLoopOver'] = ast.unparse(loop.iter)
    mask = None
    for n in loop.body:
        if isinstance(n, ast.Assign) and isinstance(n.targets[0], ast.Name) and 'isnan' in ast.unparse(n.value):
            mask = (n.targets[0].id, n.value)
    f['maskPerMember'] = mask is not None       # recomputed before every member (NaN produced on the way is masked too)
    if mask is None:
        for n in ast.walk(xf):
            if isinstance(n, ast.Assign) and isinstance(n.targets[0], ast.Name) and 'isnan' in ast.unparse(n.value):
                mask = (n.targets[0].id, n.value)
    if mask is None:
        raise ValueError('TransformSequence.xform: NaN mask not found')
    r = {arr: 'XF', mask[0]: 'MASK'}
    f['nanMask'] = _norm(mask[1], r)
    f['writeTargets'] = sorted({_norm(w.targets[0], r) for w in wb})
    args = set()
    for w in wb:
        if not (isinstance(w.value, ast.Call) and w.value.args):
            raise ValueError('TransformSequence.xform: write-back value is not a call of the member transform')
        args.add(_norm(w.value.args[0], r))
        f['memberCall'] = _norm(w.value.func, r)
    f['writeArgs'] = sorted(args)
    skip = [n for n in loop.body if isinstance(n, ast.If) and any(isinstance(c, ast.Continue) for c in n.body)]
    f['allNanSkip'] = sorted(_norm(s.test, r) for s in skip)
    return f


def _init_copy_default(cls):
    init = _meth(cls, '__init__')
    for a, d in zip(init.args.kwonlyargs, init.args.kw_defaults):
        if a.arg == 'copy' and d is not None:
            return ast.unparse(d)
    return '?'


def _is_fresh_copy(v):
    """Does the expression yield an array that cannot share memory with its argument?"""
    if isinstance(v, ast.Call):
        kws = {k.arg: ast.unparse(k.value) for k in v.keywords}
        fn = ast.unparse(v.func)
        if isinstance(v.func, ast.Attribute) and v.func.attr == 'astype':
            return kws.get('copy', 'True') == 'True'
        if isinstance(v.func, ast.Attribute) and v.func.attr == 'copy' and not v.args:
            return True
        if fn in ('np.array', 'numpy.array'):
            return kws.get('copy', 'True') == 'True'
        if fn in ('np.copy', 'numpy.copy', 'copy.deepcopy', 'deepcopy'):
            return True
    return False


# ------------------------------------------------------------------------------------------------ thinplate.py / MLS
def tps_facts(tree):
    cls = _cls(tree, 'TPStransform')
    f = {}
    init = _meth(cls, '__init__')
    params = [a.arg for a in init.args.args[1:3]]
    neg = _meth(cls, '__neg__')
    rets = [n for n in ast.walk(neg) if isinstance(n, ast.Return)]
    if len(rets) != 1:
        raise ValueError('TPStransform.__neg__: expected one return')
    rv = rets[0].value

    def ctor_args(call):
        a = [ast.unparse(x) for x in call.args]
        kw = {k.arg: ast.unparse(k.value) for k in call.keywords}
        while len(a) < 2:
            a.append(kw.get(params[len(a)], '?'))
        return a
    if isinstance(rv, ast.Call) and ast.unparse(rv.func) in ('TPStransform', 'self.__class__', 'type(self)'):
        f['tpsNegSwaps'] = ctor_args(rv) == ['self.target', 'self.source']
        f['tpsNegFresh'] = True
    elif isinstance(rv, ast.Name):
        x = rv.id
        origin = None
        resets = set()
        src = tgt = None
        for n in ast.walk(neg):
            if isinstance(n, ast.Assign) and len(n.targets) == 1:
                t, v = n.targets[0], n.value
                if isinstance(t, ast.Name) and t.id == x and isinstance(v, ast.Call):
                    fn = ast.unparse(v.func)
                    if fn in ('self.copy', 'copy.copy', 'copy.deepcopy'):
                        origin = 'copy'
                    elif fn in ('TPStransform', 'self.__class__', 'type(self)'):
                        origin = 'ctor'
                        src, tgt = ctor_args(v)
                pairs = []
                if isinstance(t, ast.Tuple) and isinstance(v, ast.Tuple) and len(t.elts) == len(v.elts):
                    pairs = list(zip(t.elts, v.elts))
                else:
                    pairs = [(t, v)]
                for tt, vv in pairs:
                    if isinstance(tt, ast.Attribute) and isinstance(tt.value, ast.Name) and tt.value.id == x:
                        if tt.attr in ('_W', '_A') and isinstance(vv, ast.Constant) and vv.value is None:
                            resets.add(tt.attr)
                        if tt.attr == 'source':
                            src = ast.unparse(vv)
                        if tt.attr == 'target':
                            tgt = ast.unparse(vv)
        if origin is None:
            raise ValueError('TPStransform.__neg__: origin of the returned object not understood')
        f['tpsNegSwaps'] = (src, tgt) == ('self.target', 'self.source')
        f['tpsNegFresh'] = origin == 'ctor' or resets == {'_W', '_A'}
    else:
        raise ValueError('TPStransform.__neg__: return value not understood')
    # constructor starts without coefficients
    f['tpsInitEmpty'] = any(isinstance(n, ast.Assign) and sorted(ast.unparse(t) for t in
                            (n.targets[0].elts if isinstance(n.targets[0], ast.Tuple) else n.targets)) == ['self._A', 'self._W']
                            and all(isinstance(c, ast.Constant) and c.value is None for c in
                                    (n.value.elts if isinstance(n.value, ast.Tuple) else [n.value]))
                            for n in ast.walk(init)) or \
        {'self._W', 'self._A'} <= {ast.unparse(n.targets[0]) for n in ast.walk(init) if isinstance(n, ast.Assign)
                                    and isinstance(n.value, ast.Constant) and n.value.value is None}
    cp = _meth(cls, 'copy')
    f['tpsCopyCarries'] = any(isinstance(c, ast.Call) and ast.unparse(c.func).endswith('__dict__.update')
                              and c.args and ast.unparse(c.args[0]) == 'self.__dict__' for c in ast.walk(cp))
    calc = _meth(cls, '_calc_tps_coefs')
    ca = None
    for c in ast.walk(calc):
        if isinstance(c, ast.Call) and ast.unparse(c.func).endswith('tps_coefs'):
            ca = [ast.unparse(a) for a in c.args]
    if ca is None:
        raise ValueError('TPStransform._calc_tps_coefs: call of tps_coefs not found')
    f['tpsCoefArgs'] = ca
    xf = _meth(cls, 'xform')
    kern = None
    for c in ast.walk(xf):
        if isinstance(c, ast.Call) and ast.unparse(c.func).endswith('K_matrix'):
            kern = [ast.unparse(a) for a in c.args]
    if kern is None:
        raise ValueError('TPStransform.xform: K_matrix call not found')
    f['tpsKernelArgs'] = kern
    rets = [n for n in ast.walk(xf) if isinstance(n, ast.Return)]
    names = {}
    for n in xf.body:
        if isinstance(n, ast.Assign) and isinstance(n.targets[0], ast.Name) and isinstance(n.value, ast.Call):
            fn = ast.unparse(n.value.func)
            if fn.endswith('K_matrix'):
                names[n.targets[0].id] = 'U'
            elif fn.endswith('P_matrix'):
                names[n.targets[0].id] = 'P'

    def summands(e):
        if isinstance(e, ast.BinOp) and isinstance(e.op, ast.Add):
            return summands(e.left) + summands(e.right)
        if isinstance(e, ast.Call) and ast.unparse(e.func) in ('np.matmul', 'np.dot', 'numpy.matmul', 'numpy.dot') and len(e.args) == 2:
            return [' @ '.join(_norm(a, names) for a in e.args)]
        if isinstance(e, ast.BinOp) and isinstance(e.op, ast.MatMult):
            return [f'{_norm(e.left, names)} @ {_norm(e.right, names)}']
        raise ValueError(f'TPStransform.xform: cannot read the summand `{ast.unparse(e)}`')
    f['tpsEvalTerms'] = sorted(summands(rets[-1].value))
    return f


def mls_facts(tree):
    cls = _cls(tree, 'MovingLeastSquaresTransform')
    neg = _meth(cls, '__neg__')
    flips = False
    for n in ast.walk(neg):
        if isinstance(n, ast.Assign) and isinstance(n.targets[0], ast.Attribute) and n.targets[0].attr == 'reverse':
            flips = ast.unparse(n.value) == 'not self.reverse'
    xf = _meth(cls, 'xform')
    passes = any(isinstance(c, ast.Call) and ast.unparse(c.func).endswith('transformer.transform')
                 and any(k.arg == 'reverse' and ast.unparse(k.value) == 'self.reverse' for k in c.keywords) for c in ast.walk(xf))
    return {'mlsNegFlips': flips, 'mlsPassesReverse': passes}


def neg_classes(repo):
    out = []
    for p in sorted((repo / 'navis' / 'transforms').glob('*.py')):
        try:
            tree = ast.parse(p.read_text())
        except SyntaxError as e:     # pragma: no cover
            raise ValueError(f'{p.name}: {e}')
        for n in tree.body:
            if isinstance(n, ast.ClassDef) and (n.name == 'TransformSequence' or any('Transform' in ast.unparse(b) for b in n.bases)):
                has = any(isinstance(m, ast.FunctionDef) and m.name == '__neg__' for m in n.body)
                out.append((n.name, has))
    return sorted(out)


# ------------------------------------------------------------------------------------------------ output
def generate(repo: Path):
    repo = Path(repo)
    tdir = repo / 'navis' / 'transforms'
    t_tree = ast.parse((tdir / 'templates.py').read_text())
    b_tree = ast.parse((tdir / 'base.py').read_text())
    p_tree = ast.parse((tdir / 'thinplate.py').read_text())
    m_tree = ast.parse((tdir / 'moving_least_squares.py').read_text())
    reg = _cls(t_tree, 'TemplateRegistry')
    g = graph_facts(_meth(reg, 'bridging_graph'))
    fd = find_facts(_meth(reg, 'find_bridging_path'))
    rg = register_facts(reg)
    xb = xform_brain_facts(t_tree)
    sq = seq_facts(b_tree)
    tp = tps_facts(p_tree)
    ml = mls_facts(m_tree)
    nc = neg_classes(repo)

    L = []
    A = L.append
    A('/- GENERATED by translator/gen_bridge.py from navis/transforms/{templates,base,thinplate,moving_least_squares}.py')
    A('   and the class table of navis/transforms/*.py.  Do not edit: regenerated from the current source tree on every')
    A('   `./check C08`. -/')
    A('set_option linter.unusedVariables false')
    A('namespace Navis.Gen.Bridge')
    A('')
    A('/-! ### `TemplateRegistry.find_bridging_path` -/')
    A('/-- One iteration of `for path in nx.all_simple_paths(...)`: is `found_good` set?  `vne` = `via` is truthy,')
    A('`allv` = `all(v in path for v in via)`, `ane` = `avoid` is truthy, `anya` = `any(v in path for v in avoid)`. -/')
    A(f'def acceptTree (vne allv ane anya : Bool) : Bool :=\n  {fd["acceptTree"]}')
    A('/-- every `found_good = True` is followed by `break` (the accepted path is the one returned) -/')
    A(f'def acceptBreaks : Bool := {_lean_bool(fd["acceptBreaks"])}')
    A('/-- guard of the `nx.shortest_path` short cut -/')
    A(f'def shortcutTree (vne ane : Bool) : Bool :=\n  {fd["shortcutTree"]}')
    A(f'def shortestArgs : List String := {_lean_list(fd["shortestArgs"])}')
    A(f'def enumArgs : List String := {_lean_list(fd["enumArgs"])}')
    A('/-- `via = …make_iterable(via)…` / `avoid = …make_iterable(avoid)…` (a single name is not iterated letter by letter) -/')
    A(f'def viaNormalised : Bool := {_lean_bool(fd["viaNormalised"])}')
    A(f'def avoidNormalised : Bool := {_lean_bool(fd["avoidNormalised"])}')
    A(f'def raisesWhenNotGood : Bool := {_lean_bool(fd["raisesWhenNotGood"])}')
    A('/-- arguments `xform_brain` hands to `find_bridging_path` -/')
    A(f'def brainArgs : List String := {_lean_list(xb["brainArgs"])}')
    A('')
    A('/-! ### `TemplateRegistry.bridging_graph` (comprehension variable normalised to `t`) -/')
    A(f'def graphCached : Bool := {_lean_bool(g["graphCached"])}')
    A('/-- forward edges: list iterated followed by its filters, end points, transform, weight (as `Rat` arithmetic) -/')
    A(f'def fwdOver : List String := {_lean_list(g["fwdOver"])}')
    A(f'def fwdEnds : List String := {_lean_list(g["fwdEnds"])}')
    A(f'def fwdTransform : String := {_lean_str(g["fwdTransform"])}')
    A(f'def fwdWeight (w : Rat) : Rat := {g["fwdWeight"]}')
    A('/-- reverse edges are only built under `if <revGuard>:`; the branch taken when `<revNumberTest>` holds … -/')
    A(f'def revGuard : String := {_lean_str(g["revGuard"])}')
    A(f'def revNumberTest : String := {_lean_str(g["revNumberTest"])}')
    for tagname, key in (('Number', 'revNumber'), ('Other', 'revOther')):
        ends, tr, w, over = g[key]
        A(f'def rev{tagname}Over : List String := {_lean_list(over)}')
        A(f'def rev{tagname}Ends : List String := {_lean_list(ends)}')
        A(f'def rev{tagname}Transform : String := {_lean_str(tr)}')
        A(f'def rev{tagname}Weight (w k : Rat) : Rat := {w}')
    A('')
    A('/-! ### `register_transform` / `clear_caches` -/')
    A('/-- value of `invertible=`: `isSeq` = the transform is a TransformSequence, `selfNeg` = it defines `__neg__`,')
    A('`allNeg` = every member of the sequence defines `__neg__` -/')
    A(f'def invertibleOf (isSeq selfNeg allNeg : Bool) : Bool :=\n  {rg["invertibleOf"]}')
    A('/-- is the record appended?  `skip` = `skip_existing`, `present` = an equal record is registered already -/')
    A(f'def appendCond (skip present : Bool) : Bool :=\n  {rg["appendCond"]}')
    A('/-- `self.clear_caches()` is a top-level statement of `register_transform` -/')
    A(f'def registerClears : Bool := {_lean_bool(rg["registerClears"])}')
    A(f'def cleared : List String := {_lean_list(rg["cleared"])}')
    A(f'def cached : List String := {_lean_list(rg["cached"])}')
    A('')
    A('/-! ### transform classes: does the class define `__neg__` (⇒ `invertible=True` on registration) -/')
    A('def negClasses : List (String × Bool) :=\n  [' + ',\n   '.join(f'({_lean_str(n)}, {_lean_bool(h)})' for n, h in nc) + ']')
    A('')
    A('/-! ### `TransformSequence` (working array `XF`, mask `MASK`) -/')
    A(f'def seqNegReverses : Bool := {_lean_bool(sq["seqNegReverses"])}')
    A(f'def seqNegNegates : Bool := {_lean_bool(sq["seqNegNegates"])}')
    A('/-- `copy()` exists and rebuilds the sequence from COPIES of its members; `__init__` copies by default -/')
    A(f'def seqHasCopy : Bool := {_lean_bool(sq["seqHasCopy"])}')
    A(f'def seqCopyCopiesMembers : Bool := {_lean_bool(sq["seqCopyCopiesMembers"])}')
    A(f'def seqInitCopyDefault : Bool := {_lean_bool(sq["seqInitCopyDefault"])}')
    A('/-- `append`: a sequence argument is unpacked into its members, every MEMBER is type-checked / tested for `xform`,')
    A('merging into the last member is tried first -/')
    A(f'def appendUnpacksSeq : Bool := {_lean_bool(sq["appendUnpacksSeq"])}')
    A(f'def appendTestsMember : Bool := {_lean_bool(sq["appendTestsMember"])}')
    A(f'def appendIsinstanceOnMember : Bool := {_lean_bool(sq["appendIsinstanceOnMember"])}')
    A(f'def appendMergesIntoLast : Bool := {_lean_bool(sq["appendMergesIntoLast"])}')
    A('/-- the working array cannot share memory with the input (`.astype(…)` / `np.array(…)` / `.copy()` without `copy=False`) -/')
    A(f'def xfFresh : Bool := {_lean_bool(sq["xfFresh"])}')
    A(f'def xfDtype : String := {_lean_str(sq["xfDtype"])}')
    A(f'def xfLoopOver : String := {_lean_str(sq["xfLoopOver"])}')
    A(f'def nanMask : String := {_lean_str(sq["nanMask"])}')
    A('/-- the mask is recomputed inside the member loop -/')
    A(f'def maskPerMember : Bool := {_lean_bool(sq["maskPerMember"])}')
    A(f'def writeTargets : List String := {_lean_list(sq["writeTargets"])}')
    A(f'def writeArgs : List String := {_lean_list(sq["writeArgs"])}')
    A(f'def memberCall : String := {_lean_str(sq["memberCall"])}')
    A(f'def allNanSkip : List String := {_lean_list(sq["allNanSkip"])}')
    A('')
    A('/-! ### `TPStransform` / `MovingLeastSquaresTransform` -/')
    A(f'def tpsNegSwaps : Bool := {_lean_bool(tp["tpsNegSwaps"])}')
    A('/-- the object `__neg__` returns starts without cached coefficients (constructor call, or `_W`/`_A` reset) -/')
    A(f'def tpsNegFresh : Bool := {_lean_bool(tp["tpsNegFresh"])}')
    A(f'def tpsInitEmpty : Bool := {_lean_bool(tp["tpsInitEmpty"])}')
    A(f'def tpsCopyCarries : Bool := {_lean_bool(tp["tpsCopyCarries"])}')
    A(f'def tpsCoefArgs : List String := {_lean_list(tp["tpsCoefArgs"])}')
    A(f'def tpsKernelArgs : List String := {_lean_list(tp["tpsKernelArgs"])}')
    A(f'def tpsEvalTerms : List String := {_lean_list(tp["tpsEvalTerms"])}')
    A(f'def mlsNegFlips : Bool := {_lean_bool(ml["mlsNegFlips"])}')
    A(f'def mlsPassesReverse : Bool := {_lean_bool(ml["mlsPassesReverse"])}')
    A('')
    A('end Navis.Gen.Bridge')
    src = '\n'.join(L) + '\n'
    meta = {'source': ['navis/transforms/templates.py', 'navis/transforms/base.py', 'navis/transforms/thinplate.py',
                       'navis/transforms/moving_least_squares.py', 'navis/transforms/*.py (class table)'],
            'facts': {'acceptTree': fd['acceptTree'], 'shortcutTree': fd['shortcutTree'], 'appendCond': rg['appendCond'],
                      'cached': rg['cached'], 'cleared': rg['cleared'], 'negClasses': [n for n, h in nc if h],
                      'tpsNegFresh': tp['tpsNegFresh'], 'xfFresh': sq['xfFresh']}}
    return 'Bridge.lean', src, meta
