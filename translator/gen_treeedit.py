"""Translator for C10 (second pass): re-extract from the *current* source (read as text, walked with `ast`; nothing
is imported from navis) the declarative facts that decide whether reroot / cut / prune / subset do what the
property says, and emit them as Lean definitions (`Gen/TreeEdit.lean`).  `Props/C10.lean` proves theorems over them:

* `TreeNeuron.prune_distal_to` / `prune_proximal_to` (navis/core/skeleton.py): inside `for n in node:` the call is
  `graph.cut_skeleton(<the working copy>, <the loop variable>, ret=<literal>)[<k>]` and the working copy is
  re-initialised with the piece — the instance of `PruneSpec` for which the loop is proved equal to the successive
  single prunes (cutting `self` instead of the working copy makes every iteration start from the original);
* `reroot_skeleton` (navis/graph/graph_utils.py): the two slices of `x.nodes.loc[path[a:b], 'parent_id'] = path[c:d]`,
  the parent written for the new root, whether the "already a root" test inside the loop re-reads `x.root`, and — networkx
  branch — whether the walk new root -> old root tests its parent with `is None` / `is not None` (not by truthiness: id 0) —
  the instance of `RerootSpec` for which the loop is proved equal to the model's `rerootMany`;
* `cut_skeleton`: the single-tree guard, the presence / root checks for ids, the order-preserving de-duplication,
  `for c in cut[::-1]: res.insert(<index of the removed fragment>, c)`; `_cut_igraph` / `_cut_networkx`: the proximal
  node set is `<the other side> + [cut_node]`;
* `_subset_treeneuron` (navis/morpho/subset.py): the connector filter column, the orphan parent value, the tag filter,
  the `keep_disc_cn` guard, the positional mask branch, the mask -> ids translation under `prevent_fragments`;
* that reroot targets and the nodes of the prune methods are made iterable with `force_type=object` (a tag next to
  ids must not turn the ids into strings);
* `connected_subgraph`: the three index literals (`[-1]`, `[0]`, `[-1]`).

Only these facts are extracted (names bound to the same object, literals, slice bounds, attribute names): renaming
a local consistently, reordering independent statements or adding logging keeps the tie.  Anything that is not found
in the expected shape raises (a broken tie is reported, never guessed)."""
import ast
from pathlib import Path

PROPS = ['C10']


def _func(tree, name, cls=None):
    body = tree.body
    if cls:
        for n in body:
            if isinstance(n, ast.ClassDef) and n.name == cls:
                body = n.body
                break
        else:
            raise ValueError(f'class {cls} not found')
    for n in body:
        if isinstance(n, ast.FunctionDef) and n.name == name:
            return n
    raise ValueError(f'function {cls + "." if cls else ""}{name} not found')


def _lit(n):
    return ast.literal_eval(n)


def _b(v):
    return 'true' if v else 'false'


def _int(v):
    return f'({v})' if v < 0 else str(v)


def _opt_int(n):
    return 'none' if n is None else f'some {_int(_lit(n))}'


# ------------------------------------------------------------------------------------------------ prune methods
def _working_copy(fn):
    """Name bound by `if inplace: x = self else: x = self.copy(...)`."""
    for st in fn.body:
        if isinstance(st, ast.If) and ast.unparse(st.test) == 'inplace':
            a = [s for s in st.body if isinstance(s, ast.Assign)]
            b = [s for s in st.orelse if isinstance(s, ast.Assign)]
            if a and b and ast.unparse(a[0].value) == 'self' and ast.unparse(a[0].targets[0]) == ast.unparse(b[0].targets[0]) \
                    and ast.unparse(b[0].value).startswith('self.copy('):
                return ast.unparse(a[0].targets[0])
    raise ValueError(f'{fn.name}: working-copy assignment not found')


def _prune_spec(fn):
    work = _working_copy(fn)
    loops = [s for s in fn.body if isinstance(s, ast.For)]
    if len(loops) != 1:
        raise ValueError(f'{fn.name}: expected one for loop')
    loop = loops[0]
    var = ast.unparse(loop.target)
    call = None
    for st in loop.body:
        if isinstance(st, ast.Assign) and isinstance(st.value, ast.Subscript) and isinstance(st.value.value, ast.Call) \
                and ast.unparse(st.value.value.func).endswith('cut_skeleton'):
            call, piece = st.value, ast.unparse(st.targets[0])
    if call is None:
        raise ValueError(f'{fn.name}: cut_skeleton(...)[k] not found in the loop')
    c = call.value
    args = [ast.unparse(a) for a in c.args]
    kw = {k.arg: k.value for k in c.keywords}
    if len(args) != 2 or 'ret' not in kw:
        raise ValueError(f'{fn.name}: unexpected cut_skeleton arguments')
    ret = _lit(kw['ret'])
    index = _lit(call.slice)
    reinit = any(isinstance(st, ast.Expr) and isinstance(st.value, ast.Call) and ast.unparse(st.value.func) == f'{work}.__init__'
                 and [ast.unparse(a) for a in st.value.args] == [piece] for st in loop.body)
    returns = any(isinstance(st, ast.If) and any(isinstance(r, ast.Return) and r.value is not None and ast.unparse(r.value) == work for r in st.body)
                  for st in fn.body)
    keeps = any(isinstance(st, ast.Assign) and ast.unparse(st.targets[0]) == ast.unparse(loop.iter)
                and ast.unparse(st.value) == f'utils.make_iterable({ast.unparse(loop.iter)}, force_type=object)' for st in fn.body)
    ok = args[0] == work and args[1] == var and reinit and returns
    return dict(keeps_objects=keeps, work=work, first_arg=args[0], second_arg=args[1], loop_var=var, ret=ret, index=index, reinit=reinit, ok=ok)


# ------------------------------------------------------------------------------------------------ reroot
def _reroot_facts(fn):
    loops = [s for s in ast.walk(fn) if isinstance(s, ast.For) and ast.unparse(s.iter) == 'new_roots' and ast.unparse(s.target) == 'new_root']
    if len(loops) != 1:
        raise ValueError('reroot_skeleton: the loop over new_roots was not found')
    loop = loops[0]
    first = loop.body[0]
    if not (isinstance(first, ast.If) and len(first.body) == 1 and isinstance(first.body[0], ast.Continue)):
        raise ValueError('reroot_skeleton: the skip test is not the first statement of the loop')
    # the test must read the `root` attribute of the neuron inside the loop and compare it with the loop variable
    attrs = [n for n in ast.walk(first.test) if isinstance(n, ast.Attribute) and n.attr == 'root' and ast.unparse(n.value) == 'x']
    names = {n.id for n in ast.walk(first.test) if isinstance(n, ast.Name)}
    rereads = bool(attrs) and 'new_root' in names and names <= {'any', 'x', 'new_root', 'np', 'all'}
    lhs = rhs = newp = None
    for st in ast.walk(loop):
        if isinstance(st, ast.Assign) and isinstance(st.targets[0], ast.Subscript) and ast.unparse(st.targets[0].value) == 'x.nodes.loc':
            sl = st.targets[0].slice
            if isinstance(sl, ast.Tuple) and len(sl.elts) == 2 and isinstance(sl.elts[1], ast.Constant) and sl.elts[1].value == 'parent_id':
                key = sl.elts[0]
                if isinstance(key, ast.Subscript) and isinstance(key.slice, ast.Slice) and isinstance(st.value, ast.Subscript) \
                        and isinstance(st.value.slice, ast.Slice) and ast.unparse(key.value) == ast.unparse(st.value.value) == 'path':
                    if key.slice.step is not None or st.value.slice.step is not None:
                        raise ValueError('reroot_skeleton: stepped slice in the parent assignment')
                    lhs = (key.slice.lower, key.slice.upper)
                    rhs = (st.value.slice.lower, st.value.slice.upper)
                elif ast.unparse(key) == 'new_root':
                    newp = _lit(st.value)
    if lhs is None or newp is None:
        raise ValueError('reroot_skeleton: parent assignment not found')
    keeps = any(isinstance(st, ast.Assign) and ast.unparse(st.targets[0]) == 'new_roots'
                and ast.unparse(st.value) == 'utils.make_iterable(new_root, force_type=object)' for st in fn.body)
    # the networkx branch: the walk new root -> old root.  `None` (no successor) must be told apart from the node id 0
    def is_none_test(t, var, negated):
        return (isinstance(t, ast.Compare) and isinstance(t.left, ast.Name) and t.left.id == var and len(t.ops) == 1
                and isinstance(t.ops[0], ast.IsNot if negated else ast.Is) and isinstance(t.comparators[0], ast.Constant)
                and t.comparators[0].value is None)
    walks = [w for w in ast.walk(loop) if isinstance(w, ast.While) and any('remove_edge' in ast.unparse(b) for b in w.body)]
    if len(walks) != 1:
        raise ValueError('reroot_skeleton: the networkx walk (while loop removing edges) was not found')
    walk = walks[0]
    # the variable that is appended to the path and advanced with `next(g.successors(.), None)`
    adv = [b for b in walk.body if isinstance(b, ast.Assign) and isinstance(b.value, ast.Call) and ast.unparse(b.value.func) == 'next']
    if len(adv) != 1:
        raise ValueError('reroot_skeleton: the walk does not advance with next(...)')
    var = ast.unparse(adv[0].targets[0])
    default_none = (len(adv[0].value.args) == 2 and isinstance(adv[0].value.args[1], ast.Constant) and adv[0].value.args[1].value is None
                    and ast.unparse(adv[0].value.args[0]) == f'g.successors({var})')
    loop_is_not_none = is_none_test(walk.test, var, True)
    skip_is_none = default_first = False
    for st in ast.walk(loop):
        if isinstance(st, ast.If) and len(st.body) == 1 and isinstance(st.body[0], ast.Continue) and is_none_test(st.test, var, False):
            skip_is_none = True
        if isinstance(st, ast.Assign) and ast.unparse(st.targets[0]) == var and ast.unparse(st.value) == 'next(g.successors(new_root), None)':
            default_first = True
    inverted = any(isinstance(st, ast.Assign) and isinstance(st.value, ast.ListComp)
                   and ast.unparse(st.value.elt) == "(path[i + 1], path[i], {'weight': weights[i]})"
                   and ast.unparse(st.value.generators[0].iter) == 'range(len(path) - 1)' for st in ast.walk(loop))
    return dict(lhs=lhs, rhs=rhs, newp=newp, rereads=rereads, keeps_objects=keeps, nx_loop_is_not_none=loop_is_not_none,
                nx_skip_is_none=skip_is_none, nx_default_none=default_none and default_first, nx_inverted=inverted)


# ------------------------------------------------------------------------------------------------ cut
def _cut_facts(fn, fig, fnx):
    src = ast.unparse(fn)
    single = any(isinstance(s, ast.If) and ast.unparse(s.test) == 'x.n_trees != 1' and any(isinstance(r, ast.Raise) for r in s.body) for s in fn.body)
    presence = root = False
    for s in ast.walk(fn):
        if isinstance(s, ast.If):
            t = ast.unparse(s.test)
            if t == 'cn not in x.nodes.node_id.values' and any(isinstance(r, ast.Raise) for r in s.body):
                presence = True
            if t == 'cn in x.root' and any(isinstance(r, ast.Raise) for r in s.body):
                root = True
    dedup = 'cn_ids = [cn for cn in cn_ids if not (cn in seen or seen.add(cn))]' in src
    insert = False
    ixvar = None
    for s in ast.walk(fn):
        if isinstance(s, ast.Assign) and ast.unparse(s.value) == 'res.index(to_cut)':
            ixvar = ast.unparse(s.targets[0])
    first_match = "to_cut = [n for n in res if cn in n.nodes.node_id.values][0]" in src
    for s in ast.walk(fn):
        if isinstance(s, ast.For) and isinstance(s.iter, ast.Subscript) and isinstance(s.iter.slice, ast.Slice):
            sl = s.iter.slice
            if sl.lower is None and sl.upper is None and sl.step is not None and _lit(sl.step) == -1 and ast.unparse(s.iter.value) == 'cut':
                body = [ast.unparse(b) for b in s.body]
                if ixvar and body == [f'res.insert({ixvar}, {ast.unparse(s.target)})']:
                    insert = True
    prox_ig = any(isinstance(s, ast.AnnAssign) or isinstance(s, ast.Assign) for s in fig.body) and \
        any(ast.unparse(s.value) == "prox_graph.vs['node_id'] + [cut_node]" for s in ast.walk(fig) if isinstance(s, (ast.Assign, ast.AnnAssign)) and s.value is not None)
    prox_nx = any(ast.unparse(s.value) == '[n for n in x.graph.nodes if n not in dist_graph.nodes] + [cut_node]'
                  for s in ast.walk(fnx) if isinstance(s, (ast.Assign, ast.AnnAssign)) and s.value is not None)
    return dict(single=single, presence=presence, root=root, dedup=dedup, insert=insert and first_match, prox_ig=prox_ig, prox_nx=prox_nx)


# ------------------------------------------------------------------------------------------------ subset
def _subset_facts(fn):
    conn_col = conn_against = None
    guard = False
    orphan = None
    orphan_isin = None
    tag_cond = None
    mask_positional = False
    for s in ast.walk(fn):
        if isinstance(s, ast.If) and ast.unparse(s.test) == 'not keep_disc_cn and x.has_connectors':
            for a in s.body:
                if isinstance(a, ast.Assign) and ast.unparse(a.targets[0]) == 'x._connectors' and isinstance(a.value, ast.Subscript):
                    cond = a.value.slice
                    if isinstance(cond, ast.Call) and isinstance(cond.func, ast.Attribute) and cond.func.attr == 'isin':
                        col = cond.func.value
                        if isinstance(col, ast.Attribute) and ast.unparse(col.value) == 'x.connectors':
                            conn_col = col.attr
                            arg = cond.args[0]
                            if isinstance(arg, ast.Attribute) and ast.unparse(arg.value) == 'x.nodes':
                                conn_against = arg.attr
                            guard = True
        if isinstance(s, ast.Call) and isinstance(s.func, ast.Attribute) and s.func.attr == 'where' and ast.unparse(s.func.value) == "x.nodes[['parent_id']]":
            kw = {k.arg: k.value for k in s.keywords}
            orphan = _lit(kw['other'])
            orphan_isin = ast.unparse(s.args[0])
        if isinstance(s, ast.ListComp) and ast.unparse(s.elt) == 'tn':
            g = s.generators[0]
            if ast.unparse(g.iter) == 'x.tags[t]' and len(g.ifs) == 1:
                tag_cond = ast.unparse(g.ifs[0])
        if isinstance(s, ast.If) and ast.unparse(s.test) == 'isinstance(subset, np.ndarray) and subset.dtype == bool':
            mask_positional |= any(ast.unparse(a) == 'x._nodes = x._nodes.loc[subset]' for a in s.body) and \
                any(ast.unparse(a) == 'x._nodes = x.nodes[x.nodes.node_id.isin(subset)]' for a in s.orelse)
    # the dispatch on the form of `subset`: a graph contributes its nodes, a DataFrame its `node_id` column
    graph_nodes = frame_ids = False
    first = fn.body[1] if isinstance(fn.body[0], ast.Expr) else fn.body[0]
    node = first
    while isinstance(node, ast.If):
        t = ast.unparse(node.test)
        body = [ast.unparse(b) for b in node.body]
        if t == 'isinstance(subset, (nx.DiGraph, nx.Graph))' and body == ['subset = subset.nodes']:
            graph_nodes = True
        if t == 'isinstance(subset, pd.DataFrame)' and body == ['subset = subset.node_id.values']:
            frame_ids = True
        node = node.orelse[0] if len(node.orelse) == 1 else None
    # `prevent_fragments`: a boolean mask is translated into node ids BEFORE `connected_subgraph` is asked
    pf_mask_to_ids = False
    for st in fn.body:
        if isinstance(st, ast.If) and ast.unparse(st.test) == 'prevent_fragments':
            body = [ast.unparse(b) for b in st.body]
            conv = [i for i, b in enumerate(st.body) if isinstance(b, ast.If)
                    and ast.unparse(b.test) == 'isinstance(subset, np.ndarray) and subset.dtype == bool'
                    and [ast.unparse(c) for c in b.body] == ['subset = x.nodes.node_id.values[subset]'] and not b.orelse]
            call = [i for i, b in enumerate(body) if b == 'subset, new_root = graph.connected_subgraph(x, subset)']
            pf_mask_to_ids = bool(conv) and bool(call) and conv[0] < call[0]
    src = ast.unparse(fn)
    drop_empty = 'x.tags = {t: x.tags[t] for t in x.tags if x.tags[t]}' in src
    if None in (conn_col, conn_against, orphan, tag_cond):
        raise ValueError('_subset_treeneuron: filters not found in the expected shape')
    return dict(conn_col=conn_col, conn_against=conn_against, guard=guard, orphan=orphan, orphan_isin=orphan_isin, tag_cond=tag_cond,
                drop_empty=drop_empty, mask_positional=mask_positional, graph_nodes=graph_nodes, frame_ids=frame_ids, pf_mask_to_ids=pf_mask_to_ids)


def _connsub_indices(fn):
    out = {}
    for s in ast.walk(fn):
        if isinstance(s, ast.Assign) and isinstance(s.value, ast.Subscript) and isinstance(s.value.value, ast.Call) \
                and ast.unparse(s.value.value.func) == 'sorted':
            out[ast.unparse(s.targets[0])] = (_lit(s.value.slice), ast.unparse(s.value.value.args[0]),
                                              ast.unparse(s.value.value.keywords[0].value) if s.value.value.keywords else '')
    for k in ('longest_path', 'first_common', 'nr'):
        if k not in out:
            raise ValueError(f'connected_subgraph: `{k} = sorted(...)[i]` not found')
    return out


# ------------------------------------------------------------------------------------------------ emit
_RET = {'both': '.both', 'proximal': '.proximal', 'distal': '.distal'}


def generate(repo: Path):
    sk = ast.parse((repo / 'navis/core/skeleton.py').read_text())
    gu = ast.parse((repo / 'navis/graph/graph_utils.py').read_text())
    sb = ast.parse((repo / 'navis/morpho/subset.py').read_text())
    pd_ = _prune_spec(_func(sk, 'prune_distal_to', 'TreeNeuron'))
    pp_ = _prune_spec(_func(sk, 'prune_proximal_to', 'TreeNeuron'))
    rr = _reroot_facts(_func(gu, 'reroot_skeleton'))
    cf = _cut_facts(_func(gu, 'cut_skeleton'), _func(gu, '_cut_igraph'), _func(gu, '_cut_networkx'))
    sf = _subset_facts(_func(sb, '_subset_treeneuron'))
    ci = _connsub_indices(_func(gu, 'connected_subgraph'))
    rm = _func(sk, 'reroot', 'TreeNeuron')
    work = _working_copy(rm)
    method_fwd = any(isinstance(s, ast.Expr) and isinstance(s.value, ast.Call) and ast.unparse(s.value.func).endswith('reroot_skeleton')
                     and [ast.unparse(a) for a in s.value.args] == [work, 'new_root']
                     and {k.arg: ast.unparse(k.value) for k in s.value.keywords} == {'inplace': 'True'} for s in rm.body)
    setter = None
    for n in ast.walk(sk):
        if isinstance(n, ast.FunctionDef) and n.name == 'root' and any(ast.unparse(d) == 'root.setter' for d in n.decorator_list):
            setter = [ast.unparse(s.value) for s in n.body if isinstance(s, ast.Expr) and isinstance(s.value, ast.Call)]
    setter_ok = setter == ['self.reroot(value, inplace=True)']

    def spec(d):
        if d['ret'] not in _RET or not isinstance(d['index'], int) or d['index'] < 0:
            raise ValueError('prune method: unexpected ret / index literal')
        return f"{{ cutsWorkingCopy := {_b(d['ok'])}, ret := {_RET[d['ret']]}, index := {d['index']} }}"

    def sl(p):
        return f"{{ start := {_opt_int(p[0])}, stop := {_opt_int(p[1])} }}"

    L = []
    A = L.append
    A('import NavisModel.Model.TreeEdit')
    A('/- GENERATED by translator/gen_treeedit.py from navis/core/skeleton.py, navis/graph/graph_utils.py, navis/morpho/subset.py.')
    A('   Do not edit: regenerated from the current source tree on every `./check C10`. -/')
    A('namespace Navis.Gen.TreeEdit')
    A('open Navis.TreeEdit')
    A('')
    A('/-! ### `TreeNeuron.prune_distal_to` / `prune_proximal_to`: the loop over the requested nodes -/')
    A(f"/-- `graph.cut_skeleton({pd_['first_arg']}, {pd_['second_arg']}, ret='{pd_['ret']}')[{pd_['index']}]`, working copy `{pd_['work']}`, loop variable `{pd_['loop_var']}` -/")
    A(f'def pruneDistalSpec : PruneSpec := {spec(pd_)}')
    A(f"/-- `graph.cut_skeleton({pp_['first_arg']}, {pp_['second_arg']}, ret='{pp_['ret']}')[{pp_['index']}]`, working copy `{pp_['work']}`, loop variable `{pp_['loop_var']}` -/")
    A(f'def pruneProximalSpec : PruneSpec := {spec(pp_)}')
    A('/-- the requested nodes are made iterable with `force_type=object`: ids stay ids next to tags (no string array) -/')
    A(f"def pruneNodesKeptAsObjects : Bool := {_b(pd_['keeps_objects'] and pp_['keeps_objects'])}")
    A('')
    A('/-! ### `reroot_skeleton`: what the loop writes into the node table -/')
    A(f"def rerootSpec : RerootSpec := {{ lhs := {sl(rr['lhs'])}, rhs := {sl(rr['rhs'])}, newRootParent := {_int(rr['newp'])}, rereadsRoots := {_b(rr['rereads'])} }}")
    A('/-- networkx branch, the walk new root -> old root: `if parent is None: continue` and `while parent is not None:` (identity tests: the node id 0')
    A('    is falsy and must not end the walk), successors default to `None`, the inverted edges carry the weights read along the way -/')
    A(f"def nxWalkSpec : NxWalkSpec := {{ skipIsNone := {_b(rr['nx_skip_is_none'])}, loopIsNotNone := {_b(rr['nx_loop_is_not_none'])} }}")
    A(f"def nxSuccessorDefaultsToNone : Bool := {_b(rr['nx_default_none'])}")
    A(f"def nxInvertedEdgesKeepTheirWeights : Bool := {_b(rr['nx_inverted'])}")
    A('/-- `TreeNeuron.reroot` forwards its working copy and the target with `inplace=True`; `root.setter` calls `self.reroot(value, inplace=True)` -/')
    A(f'def rerootMethodForwards : Bool := {_b(method_fwd)}')
    A(f'def rootSetterReroots : Bool := {_b(setter_ok)}')
    A('/-- `new_roots = utils.make_iterable(new_root, force_type=object)`: a resolved tag is stored as the node id it names -/')
    A(f"def rerootTargetsKeptAsObjects : Bool := {_b(rr['keeps_objects'])}")
    A('')
    A('/-! ### `cut_skeleton` front end -/')
    A(f"def cutSingleTreeGuard : Bool := {_b(cf['single'])}")
    A(f"def cutIdPresenceCheck : Bool := {_b(cf['presence'])}")
    A(f"def cutIdRootCheck : Bool := {_b(cf['root'])}")
    A(f"def cutDedupKeepsFirst : Bool := {_b(cf['dedup'])}")
    A('/-- the first fragment containing the cut node is replaced, at its index, by the pieces distal first -/')
    A(f"def cutInsertsDistalFirstAtIndex : Bool := {_b(cf['insert'])}")
    A(f"def cutIgraphProximalKeepsCutNode : Bool := {_b(cf['prox_ig'])}")
    A(f"def cutNetworkxProximalKeepsCutNode : Bool := {_b(cf['prox_nx'])}")
    A('')
    A('/-! ### `_subset_treeneuron` -/')
    A(f"def subsetConnFilterColumn : String := \"{sf['conn_col']}\"")
    A(f"def subsetConnFilterAgainst : String := \"{sf['conn_against']}\"")
    A(f"def subsetConnGuard : Bool := {_b(sf['guard'])}")
    A(f"def subsetOrphanParent : Int := {_int(sf['orphan'])}")
    A(f"def subsetOrphanTest : String := \"{sf['orphan_isin']}\"")
    A(f"def subsetTagCondition : String := \"{sf['tag_cond']}\"")
    A(f"def subsetDropsEmptyTags : Bool := {_b(sf['drop_empty'])}")
    A(f"def subsetMaskIsPositional : Bool := {_b(sf['mask_positional'])}")
    A('/-- `isinstance(subset, (nx.DiGraph, nx.Graph))` -> `subset.nodes`; `isinstance(subset, pd.DataFrame)` -> `subset.node_id.values` -/')
    A(f"def subsetGraphGivesItsNodes : Bool := {_b(sf['graph_nodes'])}")
    A(f"def subsetFrameGivesNodeIdColumn : Bool := {_b(sf['frame_ids'])}")
    A('/-- with `prevent_fragments` a boolean mask becomes `x.nodes.node_id.values[mask]` before `connected_subgraph` -/')
    A(f"def subsetPreventFragmentsMaskToIds : Bool := {_b(sf['pf_mask_to_ids'])}")
    A('')
    A('/-! ### `connected_subgraph`: `sorted(...)[i]` -/')
    A(f"def connSubLongestIndex : Int := {_int(ci['longest_path'][0])}")
    A(f"def connSubFirstCommonIndex : Int := {_int(ci['first_common'][0])}")
    A(f"def connSubNewRootIndex : Int := {_int(ci['nr'][0])}")
    A(f"def connSubSortKeys : List String := [\"{ci['longest_path'][2]}\", \"{ci['first_common'][2]}\", \"{ci['nr'][2]}\"]")
    A('')
    A('end Navis.Gen.TreeEdit')
    meta = dict(source=['navis/core/skeleton.py', 'navis/graph/graph_utils.py', 'navis/morpho/subset.py'],
                facts=dict(prune_distal=pd_, prune_proximal=pp_, reroot={k: (ast.unparse(v[0]) if v[0] is not None else None, ast.unparse(v[1]) if v[1] is not None else None) if isinstance(v, tuple) else v for k, v in rr.items()},
                           cut=cf, subset=sf, connsub={k: list(v) for k, v in ci.items()}))
    return 'TreeEdit.lean', '\n'.join(L) + '\n', meta
